"""Self-checks of the machinery: sensitivity (mutants must be caught), no false
alarm (benign patches must stay green), determinism (same seed => same event
log digest across worker counts and hash seeds)."""
import glob
import json
import os
import shutil
import subprocess
import sys
import tempfile
import time

HERE = os.path.dirname(os.path.abspath(__file__))
VERIF = os.path.dirname(HERE)
PY = sys.executable


def scratch_tree(patch):
    d = tempfile.mkdtemp(prefix="pyecc-mut-")
    shutil.copytree("/repo/py_ecc", os.path.join(d, "py_ecc"),
                    ignore=shutil.ignore_patterns("__pycache__"))
    if patch:
        r = subprocess.run(["patch", "-p1", "-s", "-d", d, "-i", patch],
                           capture_output=True, text=True)
        if r.returncode != 0:
            shutil.rmtree(d, ignore_errors=True)
            raise RuntimeError("patch %s does not apply: %s%s" % (patch, r.stdout, r.stderr))
    return d


def run_against(tree, tier="quick", nruns=None, stop=True, seed=0, timeout=3000):
    env = dict(os.environ)
    env["SIM_REPO_ROOT"] = tree
    env["PYTHONPATH"] = tree + os.pathsep + VERIF
    env["VERIF_SEED"] = str(seed)
    if stop:
        env["SIM_STOP_AT_FIRST"] = "1"
    evp = os.path.join(tree, "evidence.json")
    cmd = [PY, "-m", "sim", "check", "C20", "--tier", tier, "--evidence", evp]
    if nruns:
        cmd += ["--nruns", str(nruns)]
    t = time.monotonic()
    r = subprocess.run(cmd, cwd=VERIF, env=env, capture_output=True, text=True,
                       timeout=timeout)
    return r.returncode, r.stdout, r.stderr, time.monotonic() - t


def cmd_mutants(argv):
    only = [a for a in argv if not a.startswith("-")]
    seeds = [0]
    for a in argv:
        if a.startswith("--seeds="):
            seeds = [int(x) for x in a.split("=", 1)[1].split(",")]
    res = {}
    bad = 0
    for kind, expect in (("mutants", 1), ("seeded", 1), ("benign", 0)):
        pats = sorted(glob.glob(os.path.join(VERIF, kind, "*.diff"))) + \
            sorted(glob.glob(os.path.join(VERIF, kind, "*", "patch.diff")))
        for patch in pats:
            name = os.path.basename(patch)[:-5]
            if name == "patch":
                name = "seeded_" + os.path.basename(os.path.dirname(patch))
            if only and not any(o in name for o in only):
                continue
            tree = scratch_tree(patch)
            try:
                for sd in seeds[:-1]:      # extra seeds: one line each, the last seed is "the" result
                    c2, o2, e2, d2 = run_against(tree, stop=(expect == 1), seed=sd)
                    print("%-40s expect=%d exit=%d %6.1fs %s seed=%d" % (
                        name + "@seed%d" % sd, expect, c2, d2,
                        "OK" if c2 == expect else "MISMATCH", sd))
                    bad += 0 if c2 == expect else 1
                    sys.stdout.flush()
                code, out, err, dt = run_against(tree, stop=(expect == 1), seed=seeds[-1])
            finally:
                # replay files written for a mutant are meaningless afterwards
                shutil.rmtree(tree, ignore_errors=True)
            vio = [ln for ln in out.splitlines() if ln.startswith(("VIOLATION", "  invariant"))]
            ok = code == expect
            bad += 0 if ok else 1
            res[name] = {"expected_exit": expect, "exit": code, "seconds": round(dt, 1),
                         "ok": ok, "lines": vio[:4]}
            print("%-40s expect=%d exit=%d %6.1fs %s" % (name, expect, code, dt,
                                                        "OK" if ok else "MISMATCH"))
            for ln in vio[:2]:
                print("     " + ln[:300])
            if not ok:
                print(out[-1500:])
                print(err[-1500:])
            sys.stdout.flush()
    # replays produced against mutant trees do not belong to /repo
    for p in glob.glob(os.path.join(VERIF, "replays", "C20-*.json")):
        os.unlink(p)
    print(json.dumps(res, indent=1))
    return 1 if bad else 0


def cmd_determinism(argv):
    """same seed, different worker counts / hash seeds => identical record digests"""
    sys.path.insert(0, VERIF)
    from sim import check
    nruns = int(argv[0]) if argv else 200
    seed = int(os.environ.get("VERIF_SEED") or 0)
    a, _, _, _, _ = check.run_check("quick", seed, nworkers=16, nruns=nruns)
    b, _, _, _, _ = check.run_check("quick", seed, nworkers=5, nruns=nruns)
    diff = [i for i in a["digests"] if a["digests"].get(i) != b["digests"].get(i)]
    print("determinism: %d runs compared, %d differ" % (len(a["digests"]), len(diff)))
    if diff:
        print("differing run indices:", diff[:20])
        return 2
    if a["harness_errors"] or b["harness_errors"]:
        print(a["harness_errors"][:3], b["harness_errors"][:3])
        return 2
    return 0


def main(argv):
    if not argv:
        print("selftest mutants [names...] | determinism [nruns]")
        return 2
    if argv[0] == "mutants":
        return cmd_mutants(argv[1:])
    if argv[0] == "determinism":
        return cmd_determinism(argv[1:])
    return 2
