import sys


def main():
    if len(sys.argv) < 2:
        print("usage: python -m sim check C20 [--tier quick|thorough] | replay <file> | selftest ...")
        return 2
    cmd = sys.argv[1]
    if cmd == "check":
        from . import check
        return check.main(sys.argv[2:])
    if cmd == "replay":
        from . import replay
        return replay.main(sys.argv[2:])
    if cmd == "selftest":
        from . import selftest
        return selftest.main(sys.argv[2:])
    print("unknown command %r" % cmd)
    return 2


if __name__ == "__main__":
    sys.exit(main())
