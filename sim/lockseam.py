"""Seam for locks a future py_ecc might create (it has none today).

threading.Lock / threading.RLock are wrapped *before* py_ecc is imported.  A lock
created by a frame whose code lives in the py_ecc package becomes a cooperative
lock owned by the simulator: a contended acquire blocks the *task* (the
scheduler picks another one), so a lock holder that the simulator has parked
cannot hang the run.  Every other lock in the process stays a real lock.
"""
import importlib.util
import os
import sys
import threading
import _thread

_installed = False
_real_lock = threading.Lock
_real_rlock = threading.RLock
PYECC_DIR = None
SIM = None          # the running child.Sim, set by Sim.run()
STATS = {"created": 0, "contended": 0}


class SimDeadlock(BaseException):
    pass


class CoopLock:
    def __init__(self, reentrant=False):
        self._owner = None
        self._count = 0
        self._re = reentrant
        STATS["created"] += 1

    def _me(self):
        sim = SIM
        if sim is not None and sim.cur is not None:
            return sim.cur
        return _thread.get_ident()

    def acquire(self, blocking=True, timeout=-1):
        me = self._me()
        while self._owner is not None and not (self._re and self._owner is me):
            if not blocking:
                return False
            sim = SIM
            if sim is None or sim.cur is None:
                raise SimDeadlock("py_ecc lock contended outside a simulated run")
            STATS["contended"] += 1
            sim.lock_block(me, self)       # returns when this task is scheduled again
        self._owner = me
        self._count += 1
        return True

    def release(self):
        if self._owner is None:
            raise RuntimeError("release unlocked lock")
        self._count -= 1
        if self._count == 0:
            self._owner = None
            sim = SIM
            if sim is not None:
                sim.lock_released(self)

    def locked(self):
        return self._owner is not None

    def __enter__(self):
        self.acquire()
        return self

    def __exit__(self, *a):
        self.release()

    def _is_owned(self):
        return self._owner is self._me()


class CoopEvent:
    """threading.Event for events created by py_ecc code: wait() blocks the *task*"""

    def __init__(self):
        self._flag = False
        STATS["created"] += 1

    def is_set(self):
        return self._flag

    isSet = is_set

    def set(self):
        self._flag = True
        sim = SIM
        if sim is not None:
            sim.lock_released(self)

    def clear(self):
        self._flag = False

    def wait(self, timeout=None):
        while not self._flag:
            sim = SIM
            if sim is None or sim.cur is None:
                raise SimDeadlock("py_ecc event waited for outside a simulated run")
            STATS["contended"] += 1
            try:
                sim.lock_block(sim.cur, self)
            except SimDeadlock:
                if timeout is not None:
                    return self._flag          # nobody can set it any more: the timeout expires
                raise
        return True


class CoopCondition:
    """threading.Condition for conditions created by py_ecc code"""

    def __init__(self, lock=None):
        self._lock = lock if lock is not None else CoopLock(True)
        self._waiters = []
        self.acquire = self._lock.acquire
        self.release = self._lock.release
        STATS["created"] += 1

    def __enter__(self):
        return self._lock.__enter__()

    def __exit__(self, *a):
        return self._lock.__exit__(*a)

    def wait(self, timeout=None):
        token = CoopEvent()
        self._waiters.append(token)
        # give the lock up completely while waiting (also when held re-entrantly)
        saved = None
        if isinstance(self._lock, CoopLock):
            saved = (self._lock._owner, self._lock._count)
            self._lock._owner, self._lock._count = None, 0
            if SIM is not None:
                SIM.lock_released(self._lock)
        else:
            self._lock.release()
        try:
            ok = token.wait(timeout)
        finally:
            if token in self._waiters:
                self._waiters.remove(token)
            if saved is not None:
                self._lock.acquire()
                self._lock._count = saved[1]
            else:
                self._lock.acquire()
        return ok

    def wait_for(self, predicate, timeout=None):
        r = predicate()
        while not r:
            if not self.wait(timeout):
                return predicate()
            r = predicate()
        return r

    def notify(self, n=1):
        for token in self._waiters[:n]:
            self._waiters.remove(token)
            token.set()

    def notify_all(self):
        self.notify(len(self._waiters))

    notifyAll = notify_all


_STDLIB_DIR = os.path.dirname(os.path.abspath(threading.__file__)) + os.sep


def _from_pyecc(depth=2):
    """was this synchronisation object asked for by py_ecc code?  Frames of the
    standard library in between (threading.Event -> Condition -> Lock, queue.Queue
    ...) are looked through."""
    if not PYECC_DIR:
        return False
    try:
        f = sys._getframe(depth)
    except ValueError:
        return False
    for _ in range(12):
        if f is None:
            return False
        fn = f.f_code.co_filename
        if fn.startswith(PYECC_DIR):
            return True
        if not fn.startswith(_STDLIB_DIR):
            return False
        f = f.f_back
    return False


def Lock():
    if _from_pyecc():
        return CoopLock(False)
    return _real_lock()


def RLock(*a, **k):
    if _from_pyecc():
        return CoopLock(True)
    return _real_rlock(*a, **k)


_real_event = threading.Event
_real_condition = threading.Condition


def Event():
    if _from_pyecc():
        return CoopEvent()
    return _real_event()


def Condition(lock=None):
    if _from_pyecc():
        return CoopCondition(lock)
    return _real_condition(lock)


def install():
    global _installed, PYECC_DIR
    if _installed:
        return
    _installed = True
    try:
        spec = importlib.util.find_spec("py_ecc")
        PYECC_DIR = os.path.abspath(list(spec.submodule_search_locations)[0]) + os.sep
    except Exception:
        PYECC_DIR = None
    threading.Lock = Lock
    threading.RLock = RLock
    threading.Event = Event
    threading.Condition = Condition
