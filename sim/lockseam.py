"""Seam for locks a future py_ecc might create (it has none today).

threading.Lock / threading.RLock are wrapped *before* py_ecc is imported.  A lock
created by a frame whose code lives in the py_ecc package becomes a cooperative
lock owned by the simulator: a contended acquire blocks the *task* (the
scheduler picks another one), so a lock holder that the simulator has parked
cannot hang the run.  Every other lock in the process stays a real lock.
"""
import importlib.util
import os
import sys
import threading
import _thread

_installed = False
_real_lock = threading.Lock
_real_rlock = threading.RLock
PYECC_DIR = None
SIM = None          # the running child.Sim, set by Sim.run()
STATS = {"created": 0, "contended": 0}


class SimDeadlock(BaseException):
    pass


class CoopLock:
    def __init__(self, reentrant=False):
        self._owner = None
        self._count = 0
        self._re = reentrant
        STATS["created"] += 1

    def _me(self):
        sim = SIM
        if sim is not None and sim.cur is not None:
            return sim.cur
        return _thread.get_ident()

    def acquire(self, blocking=True, timeout=-1):
        me = self._me()
        while self._owner is not None and not (self._re and self._owner is me):
            if not blocking:
                return False
            sim = SIM
            if sim is None or sim.cur is None:
                raise SimDeadlock("py_ecc lock contended outside a simulated run")
            STATS["contended"] += 1
            sim.lock_block(me, self)       # returns when this task is scheduled again
        self._owner = me
        self._count += 1
        return True

    def release(self):
        if self._owner is None:
            raise RuntimeError("release unlocked lock")
        self._count -= 1
        if self._count == 0:
            self._owner = None
            sim = SIM
            if sim is not None:
                sim.lock_released(self)

    def locked(self):
        return self._owner is not None

    def __enter__(self):
        self.acquire()
        return self

    def __exit__(self, *a):
        self.release()

    def _is_owned(self):
        return self._owner is self._me()


def _from_pyecc(depth=2):
    try:
        f = sys._getframe(depth)
    except ValueError:
        return False
    return bool(PYECC_DIR) and f.f_code.co_filename.startswith(PYECC_DIR)


def Lock():
    if _from_pyecc():
        return CoopLock(False)
    return _real_lock()


def RLock(*a, **k):
    if _from_pyecc():
        return CoopLock(True)
    return _real_rlock(*a, **k)


def install():
    global _installed, PYECC_DIR
    if _installed:
        return
    _installed = True
    try:
        spec = importlib.util.find_spec("py_ecc")
        PYECC_DIR = os.path.abspath(list(spec.submodule_search_locations)[0]) + os.sep
    except Exception:
        PYECC_DIR = None
    threading.Lock = Lock
    threading.RLock = RLock
