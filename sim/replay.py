"""Replay a recorded (minimised) run spec in a fresh process: no PRNG involved.
Succeeds as a replay (exit 1, VIOLATION line) iff the same (invariant, function)
is reported again at the same (task, op)."""
import json
import os
import subprocess
import sys

HERE = os.path.dirname(os.path.abspath(__file__))
VERIF = os.path.dirname(HERE)


def inner(path):
    from . import runner
    from .server import Server, SUBPACKAGES
    with open(path) as f:
        doc = json.load(f)
    want = doc.get("violation") or {}
    if doc.get("scenario") == "snapshot-variants":
        return replay_snapshot_variants(doc, path)
    if doc.get("scenario") == "golden-variants":
        return replay_golden_variants(doc, path)
    if doc.get("scenario") == "import-variants":
        return replay_import_variants(doc, path)
    if doc.get("scenario", "").startswith("cold"):
        from . import cold
        return cold.replay(doc, path)
    srv = doc.get("server") or {}
    S = Server(import_order=srv.get("import_order") or SUBPACKAGES, variant=srv)
    cls = runner.violation_class(want) if want else None
    for attempt in range(int(doc.get("replay_attempts") or 1)):
        out = runner.execute(S, doc, want_cov=False)
        if "harness_error" in out:
            print("HARNESS-ERROR %s" % out["harness_error"][:1500])
            return 2
        same = [v for v in out["violations"]
                if cls is None or (runner.violation_class(v) == cls and
                                   v.get("task") == want.get("task") and
                                   v.get("op") == want.get("op"))]
        if same:
            break
        if doc.get("replay_attempts"):
            print("attempt %d: not reproduced (this history depends on object identity "
                  "reuse; re-executing)" % (attempt + 1))
    print("replayed %s: %d operations, %d switches, faults fired %s, %d violation(s)" % (
        path, out["stats"]["ops"], out["stats"]["switches"],
        out["stats"]["faults_fired"], len(out["violations"])))
    for v in out["violations"][:5]:
        print("  %s task=%s op=%s function=%s detail=%s" % (
            v["invariant"], v.get("task"), v.get("op"), v.get("function"),
            json.dumps(v.get("detail"))[:300]))
    if same:
        print("VIOLATION property=C20 replay=%s" % path)
        return 1
    print("not reproduced: the recorded violation does not occur on this tree")
    return 0


def replay_snapshot_variants(doc, path):
    from . import check
    groups = doc["violation"]["detail"]["groups"]
    vs = [g[0] for g in groups.values()][:2]
    digs = []
    for v in vs:
        env = dict(os.environ)
        env["PYTHONHASHSEED"] = str(v["hashseed"])
        env["PYTHONPATH"] = VERIF + os.pathsep + env.get("PYTHONPATH", "")
        code = ("import sys,json;from sim.server import Server;"
                "S=Server(import_order=%r);print(S.snapshot_digest('public'))" %
                (v["import_order"],))
        r = subprocess.run([sys.executable] + v["flags"] + ["-c", code], cwd=VERIF, env=env,
                           capture_output=True, text=True)
        digs.append(r.stdout.strip())
    print("public data snapshot digests per variant:", digs)
    if len(set(digs)) > 1:
        print("VIOLATION property=C20 replay=%s" % path)
        return 1
    print("not reproduced")
    return 0


def try_imports(variant):
    """import the sub-packages in a freshly started interpreter; -> 'ok' or the
    exception type"""
    env = dict(os.environ)
    env["PYTHONHASHSEED"] = str(variant.get("hashseed", 0))
    env["PYTHONDONTWRITEBYTECODE"] = "1"
    pp = [VERIF]
    if os.environ.get("SIM_REPO_ROOT"):
        pp.insert(0, os.environ["SIM_REPO_ROOT"])
    env["PYTHONPATH"] = os.pathsep.join(pp)
    code = ("import importlib,sys\n"
            "try:\n"
            "    for n in %r: importlib.import_module('py_ecc.'+n)\n"
            "    print('RESULT ok')\n"
            "except BaseException as e:\n"
            "    print('RESULT', type(e).__module__+'.'+type(e).__qualname__, 'importing', n)\n"
            % (list(variant.get("import_order") or []),))
    r = subprocess.run([sys.executable] + list(variant.get("flags") or []) + ["-c", code],
                       cwd=VERIF, env=env, capture_output=True, text=True)
    for line in r.stdout.splitlines():
        if line.startswith("RESULT "):
            return line[7:]
    return "crash %s %s" % (r.returncode, r.stderr[-300:])


def replay_import_variants(doc, path):
    res = []
    for v in doc["variants"]:
        out = try_imports(v)
        res.append(out)
        print("  import order %s flags %s hashseed %s -> %s" % (
            v.get("import_order"), v.get("flags"), v.get("hashseed"), out))
    if len(set(r.split(" importing")[0] for r in res)) > 1:
        print("VIOLATION property=C20 replay=%s" % path)
        return 1
    print("not reproduced")
    return 0


def fresh_golden(req, flags, hashseed, order):
    env = dict(os.environ)
    env["PYTHONHASHSEED"] = str(hashseed)
    env["PYTHONDONTWRITEBYTECODE"] = "1"
    env["PYTHONPATH"] = VERIF + os.pathsep + env.get("PYTHONPATH", "")
    code = ("import sys,json;from sim.server import Server;S=Server(import_order=%r);"
            "print(json.dumps(S.golden_raw(json.loads(sys.stdin.read()))['outcome']))" % (order,))
    r = subprocess.run([sys.executable] + list(flags) + ["-c", code], cwd=VERIF, env=env,
                       input=json.dumps(req), capture_output=True, text=True)
    if r.returncode != 0:
        raise RuntimeError(r.stderr[-1500:])
    return json.loads(r.stdout.strip().splitlines()[-1])


def replay_golden_variants(doc, path):
    from .server import SUBPACKAGES
    srv = doc.get("server") or {}
    order = srv.get("import_order") or SUBPACKAGES
    cases = [("found-in", list(srv.get("flags") or []), srv.get("hashseed", 0), order)]
    pv = doc.get("peer_variant")
    if pv:
        cases.append(("peer", list(pv.get("flags") or []), pv.get("hashseed", 1),
                      pv.get("import_order") or SUBPACKAGES))
    cases += [("default", [], 0, SUBPACKAGES), ("-OO", ["-OO"], 1, order),
              ("-O", ["-O"], 12345, list(reversed(order)))]
    outs = []
    print("the call evaluated alone in freshly started interpreters:")
    for name, flags, hs, od in cases:
        o = fresh_golden(doc["request"], flags, hs, od)
        outs.append(o)
        print("  %-9s flags=%s hashseed=%s -> %s" % (name, flags, hs, json.dumps(o)[:160]))
    if any(o != outs[0] for o in outs[1:]):
        print("VIOLATION property=C20 replay=%s" % path)
        return 1
    print("not reproduced")
    return 0


def main(argv):
    if argv and argv[0] == "--inner":
        return inner(argv[1])
    path = argv[0]
    with open(path) as f:
        doc = json.load(f)
    srv = doc.get("server") or {}
    env = dict(os.environ)
    env["PYTHONHASHSEED"] = str(srv.get("hashseed", 0))
    env["PYTHONDONTWRITEBYTECODE"] = "1"
    env["PYTHONPATH"] = VERIF + os.pathsep + env.get("PYTHONPATH", "")
    r = subprocess.run([sys.executable] + list(srv.get("flags") or []) +
                       ["-m", "sim.replay", "--inner", path], cwd=VERIF, env=env)
    return r.returncode


if __name__ == "__main__":
    sys.exit(main(sys.argv[1:]))
