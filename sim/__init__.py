"""Deterministic simulation with fault injection for ethereum/py_ecc (property C20).

See /verif/DESIGN.md.  Nothing in this package is imported by py_ecc; py_ecc is
observed through sys.monitoring (PEP 669), fork() and value-level snapshots.
"""

PROPERTY = "C20"
REPO = "/repo"
