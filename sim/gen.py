"""Seeded generation of run specs: operation catalogue, typed argument
generators, directed scenarios, schedules and fault plans.

Everything random is drawn from the one random.Random handed in.  The generator
runs in the pristine server; it never calls py_ecc (values that must come from
py_ecc - keys, signatures - are obtained as golden evaluations).
"""
import hashlib

BLS_R = 52435875175126190479447740508185965837690552500527637822603658699938581184513
BN_R = 21888242871839275222246405745257275088548364400416034343698204186575808495617
BLS_P = 4002409555221667393417789825735904156556882819939007885332058136124031650490837864442687629129015664037894272559787  # noqa: E501
BN_P = 21888242871839275222246405745257275088696311157297823662689037894645226208583
SECP_N = 115792089237316195423570985008687907852837564279074904382605163141518161494337
SECP_P = 2**256 - 2**32 - 977

FAMS = {
    "bn128": dict(opt=False, p=BN_P, r=BN_R, mod="py_ecc.bn128",
                  curve="py_ecc.bn128.bn128_curve", pairing="py_ecc.bn128.bn128_pairing"),
    "bls12_381": dict(opt=False, p=BLS_P, r=BLS_R, mod="py_ecc.bls12_381",
                      curve="py_ecc.bls12_381.bls12_381_curve",
                      pairing="py_ecc.bls12_381.bls12_381_pairing"),
    "optimized_bn128": dict(opt=True, p=BN_P, r=BN_R, mod="py_ecc.optimized_bn128",
                            curve="py_ecc.optimized_bn128.optimized_curve",
                            pairing="py_ecc.optimized_bn128.optimized_pairing"),
    "optimized_bls12_381": dict(opt=True, p=BLS_P, r=BLS_R, mod="py_ecc.optimized_bls12_381",
                                curve="py_ecc.optimized_bls12_381.optimized_curve",
                                pairing="py_ecc.optimized_bls12_381.optimized_pairing"),
}
LEVELS = ("FQ", "FQ2", "FQ12")
DEG = {"FQ": 1, "FQ2": 2, "FQ12": 12}
GRP_LEVEL = {"G1": "FQ", "G2": "FQ2", "G12": "FQ12"}
OBLS = "py_ecc.optimized_bls12_381"
OSWU = "py_ecc.optimized_bls12_381.optimized_swu"
OCONST = "py_ecc.optimized_bls12_381.constants"
OPAIR = "py_ecc.optimized_bls12_381.optimized_pairing"
BHASH = "py_ecc.bls.hash"
BH2C = "py_ecc.bls.hash_to_curve"
BPC = "py_ecc.bls.point_compression"
BG2P = "py_ecc.bls.g2_primitives"
BCONST = "py_ecc.bls.constants"
SECP = "py_ecc.secp256k1.secp256k1"
SUITES = ("G2Basic", "G2MessageAugmentation", "G2ProofOfPossession")

# ad-hoc families that a run may define (name -> list of class specs)
ADHOC = {
    "F7o": [
        {"name": "F7o_FQ", "base": "opt.FQ", "attrs": {"field_modulus": 7}},
        {"name": "F7o_FQ2", "base": "opt.FQ2",
         "attrs": {"field_modulus": 7, "FQ2_MODULUS_COEFFS": [1, 0]}},
        {"name": "F7o_FQ12", "base": "opt.FQ12",
         "attrs": {"field_modulus": 7,
                   "FQ12_MODULUS_COEFFS": [2, 0, 0, 0, 0, 0, -2, 0, 0, 0, 0, 0]}},
    ],
    "F13r": [
        {"name": "F13r_FQ", "base": "ref.FQ", "attrs": {"field_modulus": 13}},
        {"name": "F13r_FQ2", "base": "ref.FQ2",
         "attrs": {"field_modulus": 13, "FQ2_MODULUS_COEFFS": [2, 0]}},
        {"name": "F13r_FQ12", "base": "ref.FQ12",
         "attrs": {"field_modulus": 13,
                   "FQ12_MODULUS_COEFFS": [2, 0, 0, 0, 0, 0, -2, 0, 0, 0, 0, 0]}},
    ],
    # subclasses of the library's own curve classes with another modulus
    "S11o": [
        {"name": "S11o_FQ", "base": "optimized_bn128_FQ", "attrs": {"field_modulus": 11}},
        {"name": "S11o_FQ2", "base": "optimized_bn128_FQ2",
         "attrs": {"field_modulus": 11, "FQ2_MODULUS_COEFFS": [3, 0]}},
        {"name": "S11o_FQ12", "base": "optimized_bn128_FQ12",
         "attrs": {"field_modulus": 11}},
    ],
    "S19r": [
        {"name": "S19r_FQ", "base": "bls12_381_FQ", "attrs": {"field_modulus": 19}},
        {"name": "S19r_FQ2", "base": "bls12_381_FQ2",
         "attrs": {"field_modulus": 19, "FQ2_MODULUS_COEFFS": [17, 0]}},
        {"name": "S19r_FQ12", "base": "bls12_381_FQ12",
         "attrs": {"field_modulus": 19,
                   "FQ12_MODULUS_COEFFS": [3, 0, 0, 0, 0, 0, 1, 0, 0, 0, 0, 0]}},
    ],
    # children of *ad-hoc* classes with another prime and other modulus
    # coefficients (parent first vs child first: inherited per-class state)
    "C7o": [
        {"name": "C7o_FQ", "base": "adhoc.F7o_FQ", "attrs": {"field_modulus": 5}},
        {"name": "C7o_FQ2", "base": "adhoc.F7o_FQ2",
         "attrs": {"field_modulus": 5, "FQ2_MODULUS_COEFFS": [2, 0]}},
        {"name": "C7o_FQ12", "base": "adhoc.F7o_FQ12",
         "attrs": {"field_modulus": 5,
                   "FQ12_MODULUS_COEFFS": [3, 0, 0, 0, 0, 0, 1, 0, 0, 0, 0, 0]}},
    ],
    "C13r": [
        {"name": "C13r_FQ", "base": "adhoc.F13r_FQ", "attrs": {"field_modulus": 11}},
        {"name": "C13r_FQ2", "base": "adhoc.F13r_FQ2",
         "attrs": {"field_modulus": 11, "FQ2_MODULUS_COEFFS": [3, 0]}},
        {"name": "C13r_FQ12", "base": "adhoc.F13r_FQ12",
         "attrs": {"field_modulus": 11,
                   "FQ12_MODULUS_COEFFS": [5, 0, 0, 0, 0, 0, 4, 0, 0, 0, 0, 0]}},
    ],
    # towers built the way the library builds its own: a family FQP base carrying
    # the prime, and FQ2 / FQ12 deriving from (generic FQ2/FQ12, family FQP)
    "T7r": [
        {"name": "T7r_FQ", "base": "ref.FQ", "attrs": {"field_modulus": 7}},
        {"name": "T7r_FQP", "base": "ref.FQP", "attrs": {"field_modulus": 7}},
        {"name": "T7r_FQ2", "bases": ["ref.FQ2", "adhoc.T7r_FQP"],
         "attrs": {"field_modulus": 7, "FQ2_MODULUS_COEFFS": [1, 0]}},
        {"name": "T7r_FQ12", "bases": ["ref.FQ12", "adhoc.T7r_FQP"],
         "attrs": {"field_modulus": 7,
                   "FQ12_MODULUS_COEFFS": [2, 0, 0, 0, 0, 0, -2, 0, 0, 0, 0, 0]}},
    ],
    "T13o": [
        {"name": "T13o_FQ", "base": "opt.FQ", "attrs": {"field_modulus": 13}},
        {"name": "T13o_FQP", "base": "opt.FQP", "attrs": {"field_modulus": 13}},
        {"name": "T13o_FQ2", "bases": ["opt.FQ2", "adhoc.T13o_FQP"],
         "attrs": {"field_modulus": 13, "FQ2_MODULUS_COEFFS": [2, 0]}},
        {"name": "T13o_FQ12", "bases": ["opt.FQ12", "adhoc.T13o_FQP"],
         "attrs": {"field_modulus": 13,
                   "FQ12_MODULUS_COEFFS": [2, 0, 0, 0, 0, 0, -2, 0, 0, 0, 0, 0]}},
    ],
    # same modulus as the library class, plain subclass (inherits everything)
    "Sub": [
        {"name": "Sub_FQ", "base": "optimized_bls12_381_FQ", "attrs": {}},
        {"name": "Sub_FQ2", "base": "optimized_bls12_381_FQ2", "attrs": {}},
        {"name": "Sub_FQ12", "base": "optimized_bls12_381_FQ12", "attrs": {}},
    ],
}
ADHOC_INFO = {
    "F7o": dict(opt=True, p=7), "F13r": dict(opt=False, p=13),
    "S11o": dict(opt=True, p=11), "S19r": dict(opt=False, p=19),
    "Sub": dict(opt=True, p=BLS_P),
    "C7o": dict(opt=True, p=5), "C13r": dict(opt=False, p=11),
    "T7r": dict(opt=False, p=7), "T13o": dict(opt=True, p=13),
}
ADHOC_REQUIRES = {"C7o": ["F7o"], "C13r": ["F13r"]}

# user-defined ciphersuites: subclasses of the library's suites with their own tags
# (and one deriving from another user suite); defined like ad-hoc field classes
USER_SUITES = [
    {"name": "US1", "base": "suite.G2Basic",
     "attrs": {"DST": ["bytes", b"USER_SUITE_ONE_BLS12381G2_XMD:SHA-256_SSWU_RO_NUL_".hex()]}},
    {"name": "US2", "base": "suite.G2ProofOfPossession",
     "attrs": {"DST": ["bytes", b"USER_SUITE_TWO_BLS12381G2_XMD:SHA-256_SSWU_RO_POP_".hex()],
               "POP_TAG": ["bytes", b"USER_POP_TWO_BLS12381G2_XMD:SHA-256_SSWU_RO_POP_".hex()]}},
    {"name": "US3", "base": "adhoc.US1",
     "attrs": {"DST": ["bytes", b"USER_SUITE_THREE_BLS12381G2_XMD:SHA-256_SSWU_RO_NUL_".hex()]}},
    {"name": "US4", "base": "suite.G2Basic",
     "attrs": {"xmd_hash_function": ["builtin", "_hashlib", "openssl_sha512"]}},
]

# dynamic families: classes that are defined and dropped *inside* a history
# (pseudo-ops defclass / dropclass); their primes and modulus coefficients are
# drawn per run, so only the names and the base kind are fixed here
DYN_FAMS = {}
for _i in range(14):
    DYN_FAMS["K%d" % _i] = dict(opt=(_i % 3 != 2), p=None)
SMALL_PRIMES = [5, 7, 11, 13, 17, 19, 23, 29, 31, 37, 41, 43, 47, 53, 59, 61, 67, 71]


def cls_name(fam, lvl):
    if fam in FAMS:
        return "%s_%s" % (fam, lvl)
    return "adhoc.%s_%s" % (fam, lvl)


def fam_info(fam):
    return FAMS.get(fam) or ADHOC_INFO.get(fam) or DYN_FAMS[fam]


MSGS = [b"", b"abc", b"\x00" * 32, bytes(range(64)), b"message-1", b"\xff" * 55]
SKS = [1, 42, 0x263DBD792F5B1BE47ED85F8938C0F29586AF0D3AC7B977F21C278FE1462040E3, BLS_R - 1]
HASHFNS = [["builtin", "_hashlib", "openssl_sha256"], ["builtin", "_hashlib", "openssl_sha256"],
           ["builtin", "_hashlib", "openssl_sha512"], ["builtin", "_hashlib", "openssl_sha384"],
           ["builtin", "_hashlib", "openssl_sha3_256"]]


def B(b):
    return ["bytes", bytes(b).hex()]


def lit(c):
    return {"lit": c}


def const(mod, name, *path):
    s = {"const": [mod, name]}
    if path:
        s["path"] = list(path)
    return s


class Template:
    __slots__ = ("kind", "fn", "args", "kw", "out", "cost", "group", "gen", "w")

    def __init__(self, kind, fn, args=(), out=None, cost=0.05, group="misc", gen=None,
                 kw=None, w=1.0):
        self.kind = kind
        self.fn = fn
        self.args = list(args)
        self.kw = kw or {}
        self.out = out
        self.cost = cost  # estimated milliseconds, unmonitored
        self.group = group
        self.gen = gen
        self.w = w


def build_templates():
    T = []

    def t(*a, **k):
        T.append(Template(*a, **k))

    # ---- field classes -------------------------------------------------
    for fam in list(FAMS) + list(ADHOC) + list(DYN_FAMS):
        info = fam_info(fam)
        opt = info["opt"]
        slow = 1.0 if opt else 12.0
        for lvl in LEVELS:
            cn = cls_name(fam, lvl)
            ty = "fld:%s:%s" % (fam, lvl)
            g = "field:%s" % fam
            k = "%s.%s" % (fam, lvl)
            base = 0.003 if lvl == "FQ" else (0.02 if lvl == "FQ2" else 0.06 * slow)
            if lvl == "FQ":
                t(k + ".ctor(int)", ["c", cn, ""], ["intv:" + fam], ty, base, g)
                t(k + ".ctor(fq)", ["c", cn, ""], [ty], ty, base, g, w=0.4)
            else:
                t(k + ".ctor(ints)", ["c", cn, ""], ["coeffs:%s:%s" % (fam, lvl)], ty, base, g,
                  w=1.5)
                if opt:
                    t(k + ".ctor(fqs)", ["c", cn, ""], ["fqlist:%s:%s" % (fam, lvl)], ty, base,
                      g, w=0.4)
            for o in ("add", "sub", "mul", "truediv"):
                c = base * (1 if o != "truediv" else (3 if lvl == "FQ" else
                                                     (15 if lvl == "FQ2" else 60)))
                t("%s.%s" % (k, o), ["o", o], [ty, ty], ty, c, g, w=1.5)
                if o in ("mul", "truediv") or lvl == "FQ":
                    t("%s.%s(x,int)" % (k, o), ["o", o], [ty, "intv:" + fam], ty, c, g, w=0.6)
                if o == "mul" or lvl == "FQ":
                    t("%s.%s(int,x)" % (k, o), ["o", o], ["intv:" + fam, ty], ty, c, g, w=0.5)
            if lvl != "FQ" and not opt:
                t(k + ".mul(x,fq)", ["o", "mul"], [ty, "fld:%s:FQ" % fam], ty, base, g, w=0.4)
            t(k + ".pow", ["o", "pow"], [ty, "exp"], ty,
              base * 300 if lvl != "FQ12" else base * 400, g, w=1.2)
            t(k + ".neg", ["o", "neg"], [ty], ty, base, g, w=0.6)
            t(k + ".eq", ["o", "eq"], [ty, ty], None, base, g, w=0.6)
            t(k + ".ne", ["o", "ne"], [ty, ty], None, base, g, w=0.3)
            t(k + ".repr", ["o", "repr"], [ty], None, base, g, w=0.2)
            t(k + ".one", ["c", cn, "one"], [], ty, base, g, w=0.4)
            t(k + ".zero", ["c", cn, "zero"], [], ty, base, g, w=0.4)
            t(k + ".mod", ["o", "mod"], [ty, ty], None, base, g, w=0.1)
            if lvl == "FQ":
                for o in ("lt", "le", "gt", "ge"):
                    t("%s.%s" % (k, o), ["o", o], [ty, ty], None, base, g, w=0.2)
                t(k + ".int", ["o", "int"], [ty], None, base, g, w=0.3)
                t(k + ".eq(x,int)", ["o", "eq"], [ty, "intv:" + fam], None, base, g, w=0.3)
            else:
                t(k + ".inv", ["call", "inv"], [ty], ty,
                  base * (15 if lvl == "FQ2" else 60), g, w=1.0)
                t(k + ".coeffs", ["a", "coeffs"], [ty], None, base, g, w=0.2)
                if opt:
                    t(k + ".oprd", ["call", "optimized_poly_rounded_div"],
                      [ty, "intlist", "intlist"], None, base * 3, g, w=0.3)
            if opt:
                t(k + ".sgn0", ["a", "sgn0"], [ty], None, base, g, w=1.0)
    # generic base classes used directly, mis-typed operands
    for short in ("ref", "opt"):
        t("generic.%s.FQ" % short, ["c", short + ".FQ", ""], ["int"], None, 0.003, "generic")
        t("generic.%s.FQ2" % short, ["c", short + ".FQ2", ""], ["intlist2"], None, 0.003,
          "generic")
        t("generic.%s.FQ12" % short, ["c", short + ".FQ12", ""], ["intlist12"], None, 0.003,
          "generic")
        t("generic.%s.FQP" % short, ["c", short + ".FQP", ""], ["intlist2", "intlist2"], None,
          0.003, "generic")
        t("generic.%s.FQ.one" % short, ["c", short + ".FQ", "one"], [], None, 0.003, "generic")
        t("generic.%s.FQ2.zero" % short, ["c", short + ".FQ2", "zero"], [], None, 0.003,
          "generic")
    for fam in FAMS:
        t("generic.%s_FQP" % fam, ["c", "%s_FQP" % fam, ""], ["intlist2", "intlist2"],
          None, 0.01, "generic")
        t("generic.%s_FQP(deg3)" % fam, ["c", "%s_FQP" % fam, ""], ["intlist3", "intlist3"],
          None, 0.01, "generic", w=0.6)
    for fam in ("T7r", "T13o"):
        # the family's generic FQP used directly with another modulus polynomial,
        # as a producer of values (mul/inv on them) - before or after FQ2/FQ12
        ty = "fld:%s:FQP" % fam
        g = "field:%s" % fam
        t("%s.FQP.ctor(deg2)" % fam, ["c", "adhoc.%s_FQP" % fam, ""], ["intlist2", "intlist2"],
          ty, 0.01, g, w=1.5)
        t("%s.FQP.ctor(deg3)" % fam, ["c", "adhoc.%s_FQP" % fam, ""], ["intlist3", "intlist3"],
          ty, 0.01, g, w=1.5)
        t("%s.FQP.mul(x,int)" % fam, ["o", "mul"], [ty, "intv:" + fam], ty, 0.01, g)
        t("%s.FQP.neg" % fam, ["o", "neg"], [ty], ty, 0.01, g, w=0.5)
        t("%s.FQP.mul" % fam, ["o", "mul"], [ty, ty], ty, 0.02, g, w=1.5)
        t("%s.FQP.inv" % fam, ["call", "inv"], [ty], ty, 0.1, g)
        t("%s.FQP.pow" % fam, ["o", "pow"], [ty, "scalar16"], ty, 0.2, g)
    t("utils.prime_field_inv", ["f", "py_ecc.utils", "prime_field_inv"], ["int", "modulus"],
      None, 0.01, "utils")
    t("utils.deg", ["f", "py_ecc.utils", "deg"], ["intlist"], None, 0.003, "utils")
    t("utils.poly_rounded_div", ["f", "py_ecc.utils", "poly_rounded_div"],
      ["intlist", "intlist"], None, 0.01, "utils")
    t("optfield.mod_int", ["f", "py_ecc.fields.optimized_field_elements", "mod_int"],
      ["int_or_fq", "modulus"], None, 0.003, "utils")

    # ---- curves ----------------------------------------------------------
    for fam, info in FAMS.items():
        opt = info["opt"]
        m = info["mod"]
        cm = info["curve"]
        pm = info["pairing"]
        g = "curve:%s" % fam
        for grp in ("G1", "G2", "G12"):
            ty = "pt:%s:%s" % (fam, grp)
            k = "%s.%s" % (fam, grp)
            lvl = GRP_LEVEL[grp]
            bname = {"G1": "b", "G2": "b2", "G12": "b12"}[grp]
            f = {"G1": 1.0, "G2": 4.0, "G12": 40.0}[grp] * (1.0 if opt else 4.0)
            t(k + ".is_inf", ["f", m, "is_inf"], [ty], None, 0.005, g, w=0.4)
            t(k + ".is_on_curve", ["f", m, "is_on_curve"], [ty, "constb:%s:%s" % (fam, bname)],
              None, 0.02 * f, g, w=0.8)
            t(k + ".double", ["f", m, "double"], [ty], ty, 0.02 * f, g)
            t(k + ".add", ["f", m, "add"], [ty, ty], ty, 0.03 * f, g, w=1.5)
            if grp == "G12":
                t(k + ".multiply", ["f", m, "multiply"], [ty, "scalar16"], ty, 1.0 * f / 8, g)
            else:
                t(k + ".multiply", ["f", m, "multiply"], [ty, "scalar:" + fam], ty, 10.0 * f, g,
                  w=1.5)
                t(k + ".multiply(small)", ["f", m, "multiply"], [ty, "scalar16"], ty, 0.7 * f, g)
            t(k + ".eq", ["f", m, "eq"], [ty, ty], None, 0.01 * f, g, w=0.6)
            t(k + ".neg", ["f", m, "neg"], [ty], ty, 0.005, g, w=0.6)
            if opt:
                t(k + ".normalize", ["f", m, "normalize"], [ty], "aff:%s:%s" % (fam, grp),
                  0.05 * f, g, w=0.8)
                t(k + ".normalize1", ["f", pm, "normalize1"], [ty], ty, 0.05 * f, g, w=0.4)
        t(fam + ".twist", ["f", m, "twist"], ["pt:%s:G2" % fam], "pt:%s:G12" % fam,
          0.02 if opt else 2.5, g, w=1.0)
        g = "pairing:%s" % fam
        t(fam + ".cast_point_to_fq12", ["f", pm, "cast_point_to_fq12"], ["pt:%s:G1" % fam],
          "pt:%s:G12" % fam, 0.02, g, w=0.8)
        t(fam + ".linefunc.G1", ["f", pm, "linefunc"], ["pt:%s:G1" % fam] * 3, None, 0.05, g)
        t(fam + ".linefunc.G12", ["f", pm, "linefunc"], ["pt:%s:G12" % fam] * 3, None,
          0.6 if opt else 12, g, w=0.6)
        if opt:
            t(fam + ".pairing(noFE)", ["f", m, "pairing"],
              ["pt:%s:G2" % fam, "pt:%s:G1" % fam], "fld:%s:FQ12" % fam,
              60 if fam.endswith("381") else 125, g, kw={"final_exponentiate": "false"}, w=1.5)
            t(fam + ".pairing", ["f", m, "pairing"], ["pt:%s:G2" % fam, "pt:%s:G1" % fam],
              "fld:%s:FQ12" % fam, 510 if fam.endswith("381") else 340, g, w=0.7)
            t(fam + ".final_exponentiate", ["f", m, "final_exponentiate"],
              ["fld:%s:FQ12" % fam], "fld:%s:FQ12" % fam,
              150 if fam.endswith("381") else 230, g, w=0.7)
            if fam.endswith("381"):
                t(fam + ".miller_loop(noFE)", ["f", pm, "miller_loop"],
                  ["pt:%s:G2" % fam, "pt:%s:G1" % fam], "fld:%s:FQ12" % fam, 55, g,
                  kw={"final_exponentiate": "false"}, w=0.5)
                t(fam + ".exp_by_p", ["f", pm, "exp_by_p"], ["fld:%s:FQ12" % fam],
                  "fld:%s:FQ12" % fam, 0.25, g, w=1.5)
            else:
                t(fam + ".miller_loop(noFE)", ["f", pm, "miller_loop"],
                  ["pt:%s:G12" % fam, "pt:%s:G12" % fam], "fld:%s:FQ12" % fam, 120, g,
                  kw={"final_exponentiate": "false"}, w=0.5)
        else:
            # reference pairings end in RecursionError on CPython 3.12 (resource
            # indeterminate): still executed as interleaving partners
            t(fam + ".pairing", ["f", m, "pairing"], ["pt:%s:G2" % fam, "pt:%s:G1" % fam],
              "fld:%s:FQ12" % fam, 1750, g, w=0.15)
            t(fam + ".miller_loop", ["f", pm, "miller_loop"],
              ["pt:%s:G12" % fam, "pt:%s:G12" % fam], "fld:%s:FQ12" % fam, 1750, g, w=0.1)
            t(fam + ".final_exponentiate", ["f", m, "final_exponentiate"],
              ["fld:%s:FQ12" % fam], "fld:%s:FQ12" % fam, 300, g, w=0.15)

    # ---- optimized bls12-381 hash-to-curve plumbing ----------------------
    ofq, ofq2 = "fld:optimized_bls12_381:FQ", "fld:optimized_bls12_381:FQ2"
    og1, og2 = "pt:optimized_bls12_381:G1", "pt:optimized_bls12_381:G2"
    t("swu.optimized_swu_G1", ["f", OSWU, "optimized_swu_G1"], [ofq], "iso:G1", 1.2, "swu")
    t("swu.optimized_swu_G2", ["f", OSWU, "optimized_swu_G2"], [ofq2], "iso:G2", 9, "swu")
    t("swu.sqrt_division_FQ", ["f", OSWU, "sqrt_division_FQ"], [ofq, ofq], None, 0.6, "swu")
    t("swu.sqrt_division_FQ2", ["f", OSWU, "sqrt_division_FQ2"], [ofq2, ofq2], None, 7, "swu")
    t("swu.iso_map_G1", ["f", OSWU, "iso_map_G1"], ["*iso:G1"], og1, 0.5, "swu")
    t("swu.iso_map_G2", ["f", OSWU, "iso_map_G2"], ["*iso:G2"], og2, 0.5, "swu")
    t("swu.iso_map_G1(raw)", ["f", OSWU, "iso_map_G1"], [ofq, ofq, ofq], None, 0.5, "swu", w=0.4)
    t("swu.iso_map_G2(raw)", ["f", OSWU, "iso_map_G2"], [ofq2, ofq2, ofq2], None, 0.5, "swu",
      w=0.4)
    t("swu.clear_cofactor_G1", ["f", OBLS, "multiply_clear_cofactor_G1"], [og1], og1, 3, "swu")
    t("swu.clear_cofactor_G2", ["f", OBLS, "multiply_clear_cofactor_G2"], [og2], og2, 75, "swu")
    t("h2c.hash_to_G2", ["f", BH2C, "hash_to_G2"], ["b:msg", "b:dst", "hashfn"], og2, 90, "h2c")
    t("h2c.hash_to_G1", ["f", BH2C, "hash_to_G1"], ["b:msg", "b:dst", "hashfn"], og1, 3.5, "h2c")
    t("h2c.hash_to_field_FQ2", ["f", BH2C, "hash_to_field_FQ2"],
      ["b:msg", "count", "b:dst", "hashfn"], None, 0.1, "h2c")
    t("h2c.hash_to_field_FQ", ["f", BH2C, "hash_to_field_FQ"],
      ["b:msg", "count", "b:dst", "hashfn"], None, 0.1, "h2c")
    t("h2c.map_to_curve_G2", ["f", BH2C, "map_to_curve_G2"], [ofq2], og2, 10, "h2c")
    t("h2c.map_to_curve_G1", ["f", BH2C, "map_to_curve_G1"], [ofq], og1, 1.5, "h2c")
    t("h2c.clear_cofactor_G2", ["f", BH2C, "clear_cofactor_G2"], [og2], og2, 75, "h2c", w=0.5)
    t("h2c.clear_cofactor_G1", ["f", BH2C, "clear_cofactor_G1"], [og1], og1, 3, "h2c", w=0.5)
    # ---- bls.hash -------------------------------------------------------------
    t("hash.hkdf_extract", ["f", BHASH, "hkdf_extract"], ["b:any", "b:any"], "b:any", 0.01,
      "hash")
    t("hash.hkdf_expand", ["f", BHASH, "hkdf_expand"], ["b:any", "b:any", "len"], None, 0.02,
      "hash", w=1.5)
    t("hash.i2osp", ["f", BHASH, "i2osp"], ["uint", "smalllen"], "b:any", 0.002, "hash")
    t("hash.os2ip", ["f", BHASH, "os2ip"], ["b:any"], None, 0.002, "hash")
    t("hash.sha256", ["f", BHASH, "sha256"], ["b:any"], "b:any", 0.002, "hash")
    t("hash.xor", ["f", BHASH, "xor"], ["b:any", "b:any"], "b:any", 0.005, "hash")
    t("hash.expand_message_xmd", ["f", BHASH, "expand_message_xmd"],
      ["b:msg", "b:dst", "len", "hashfn"], "b:any", 0.03, "hash", w=1.5)
    # ---- point compression / g2 primitives ------------------------------------
    t("pc.get_flags", ["f", BPC, "get_flags"], ["z384"], None, 0.002, "compress")
    t("pc.is_point_at_infinity", ["f", BPC, "is_point_at_infinity"], ["z384"], None, 0.002,
      "compress")
    t("pc.is_point_at_infinity(2)", ["f", BPC, "is_point_at_infinity"], ["z384", "z384"], None,
      0.002, "compress")
    t("pc.compress_G1", ["f", BPC, "compress_G1"], [og1], "z:G1", 0.3, "compress")
    t("pc.decompress_G1", ["f", BPC, "decompress_G1"], ["z:G1"], og1, 0.3, "compress")
    t("pc.compress_G2", ["f", BPC, "compress_G2"], [og2], "z:G2", 0.8, "compress")
    t("pc.decompress_G2", ["f", BPC, "decompress_G2"], ["z:G2"], og2, 6, "compress")
    t("pc.modular_squareroot_in_FQ2", ["f", BPC, "modular_squareroot_in_FQ2"], [ofq2], None, 5,
      "compress")
    t("g2p.subgroup_check.G1", ["f", BG2P, "subgroup_check"], [og1], None, 10, "g2prim")
    t("g2p.subgroup_check.G2", ["f", BG2P, "subgroup_check"], [og2], None, 40, "g2prim")
    t("g2p.G2_to_signature", ["f", BG2P, "G2_to_signature"], [og2], "b:sig", 0.8, "g2prim")
    t("g2p.signature_to_G2", ["f", BG2P, "signature_to_G2"], ["b:sig"], og2, 6, "g2prim")
    t("g2p.G1_to_pubkey", ["f", BG2P, "G1_to_pubkey"], [og1], "b:pk", 0.3, "g2prim")
    t("g2p.pubkey_to_G1", ["f", BG2P, "pubkey_to_G1"], ["b:pk"], og1, 0.3, "g2prim")
    # ---- ciphersuites -----------------------------------------------------------
    for s in SUITES:
        c = "suite." + s
        g = "bls:" + s
        t(s + ".SkToPk", ["c", c, "SkToPk"], ["sk"], "b:pk", 0.4, g)
        t(s + ".KeyGen", ["c", c, "KeyGen"], ["b:ikm"], "sk", 0.15, g, w=1.5)
        t(s + ".KeyGen(info)", ["c", c, "KeyGen"], ["b:ikm", "b:any"], "sk", 0.15, g)
        t(s + ".KeyValidate", ["c", c, "KeyValidate"], ["b:pk"], None, 10, g)
        t(s + ".Sign", ["c", c, "Sign"], ["sk", "b:msg"], "b:sig", 110, g, w=1.5)
        t(s + "._CoreSign", ["c", c, "_CoreSign"], ["sk", "b:msg", "b:dst"], "b:sig", 110, g,
          w=0.3)
        t(s + ".Verify", ["c", c, "Verify"], gen="verify", cost=330, group=g, w=1.5)
        t(s + ".Aggregate", ["c", c, "Aggregate"], gen="aggregate", out="b:sig", cost=14,
          group=g)
        t(s + ".AggregateVerify", ["c", c, "AggregateVerify"], gen="aggverify", cost=520,
          group=g, w=0.8)
        for v in ("privkey", "pubkey", "message", "signature"):
            t("%s._is_valid_%s" % (s, v), ["c", c, "_is_valid_" + v],
              [{"privkey": "sk", "pubkey": "b:pk", "message": "b:msg",
                "signature": "b:sig"}[v]], None, 0.002 if v != "pubkey" else 5, g, w=0.2)
    c = "suite.G2ProofOfPossession"
    g = "bls:G2ProofOfPossession"
    t("POP.PopProve", ["c", c, "PopProve"], ["sk"], "b:sig", 110, g)
    t("POP.PopVerify", ["c", c, "PopVerify"], gen="popverify", cost=340, group=g)
    t("POP._AggregatePKs", ["c", c, "_AggregatePKs"], gen="aggpks", out="b:pk", cost=1.5,
      group=g)
    t("POP.FastAggregateVerify", ["c", c, "FastAggregateVerify"], gen="fastaggverify",
      cost=360, group=g)
    t("Base.Aggregate", ["c", "suite.BaseG2Ciphersuite", "Aggregate"], gen="aggregate",
      out="b:sig", cost=14, group="bls:G2Basic", w=0.2)
    # ---- secp256k1 ----------------------------------------------------------------
    g = "secp"
    t("secp.safe_ord", ["f", SECP, "safe_ord"], ["byte_or_int"], None, 0.001, g, w=0.3)
    t("secp.bytes_to_int", ["f", SECP, "bytes_to_int"], ["b:b32"], None, 0.005, g, w=0.5)
    t("secp.inv", ["f", SECP, "inv"], ["uint256", "modulus"], None, 0.03, g)
    t("secp.to_jacobian", ["f", SECP, "to_jacobian"], ["secp:pt"], "secp:jac", 0.001, g)
    t("secp.jacobian_double", ["f", SECP, "jacobian_double"], ["secp:jac"], "secp:jac", 0.005, g)
    t("secp.jacobian_add", ["f", SECP, "jacobian_add"], ["secp:jac", "secp:jac"], "secp:jac",
      0.01, g)
    t("secp.from_jacobian", ["f", SECP, "from_jacobian"], ["secp:jac"], "secp:pt", 0.03, g)
    t("secp.jacobian_multiply", ["f", SECP, "jacobian_multiply"], ["secp:jac", "secp:scalar"],
      "secp:jac", 1.5, g)
    t("secp.multiply", ["f", SECP, "multiply"], ["secp:pt", "secp:scalar"], "secp:pt", 1.5, g,
      w=1.5)
    t("secp.add", ["f", SECP, "add"], ["secp:pt", "secp:pt"], "secp:pt", 0.05, g, w=1.5)
    t("secp.privtopub", ["f", SECP, "privtopub"], ["b:b32"], "secp:pt", 1.5, g)
    t("secp.deterministic_generate_k", ["f", SECP, "deterministic_generate_k"],
      ["b:b32", "b:b32"], None, 0.02, g)
    t("secp.ecdsa_raw_sign", ["f", SECP, "ecdsa_raw_sign"], ["b:b32", "b:b32"], "secp:vrs", 1.8,
      g, w=1.5)
    t("secp.ecdsa_raw_recover", ["f", SECP, "ecdsa_raw_recover"], ["b:b32", "secp:vrs"],
      "secp:pt", 5.2, g, w=1.5)
    # ---- lazy loader ------------------------------------------------------------------
    for name in ("bls", "bn128", "secp256k1", "optimized_bls12_381", "bls12_381",
                 "optimized_bn128"):
        t("lazy.getattr." + name, ["lazy", "getattr", name], [], None, 0.01, "lazy", w=0.4)
        t("lazy.import." + name, ["lazy", "import", name], [], None, 0.01, "lazy", w=0.2)
        t("lazy.from." + name, ["lazy", "from", name], [], None, 0.01, "lazy", w=0.2)
    t("lazy.getattr.nonexistent", ["lazy", "getattr", "nonexistent"], [], None, 0.01, "lazy",
      w=0.3)
    t("lazy.hasattr.nonexistent", ["lazy", "hasattr", "nope"], [], None, 0.01, "lazy", w=0.2)
    return T


_ALL_TEMPLATES = build_templates()
BY_KIND = {t.kind: t for t in _ALL_TEMPLATES}
# the sweep / random catalogue; templates of dynamic families are only used by
# the class-churn scenario
DYN_TEMPLATES = [t for t in _ALL_TEMPLATES if t.group.startswith("field:K")]
TEMPLATES = [t for t in _ALL_TEMPLATES if not t.group.startswith("field:K")]
GROUPS = sorted({t.group for t in TEMPLATES})


class Builder:
    """builds the op list of one task"""

    def __init__(self, gen, parent=None, tag="t"):
        self.g = gen
        self.ops = []
        self.regs = {}     # type -> [reg]
        self.parent = parent
        self.cost = 0.0
        self.tag = tag
        self.depth = 0

    # registers ------------------------------------------------------------
    def avail(self, ty):
        out = list(self.regs.get(ty, ()))
        if self.parent is not None:
            out += self.parent.avail(ty)
        return out

    def all_regs(self):
        out = []
        b = self
        while b is not None:
            for ty, rs in b.regs.items():
                out += [(ty, r) for r in rs]
            b = b.parent
        return out

    def new_reg(self, ty):
        r = self.g.fresh_reg()
        self.regs.setdefault(ty, []).append(r)
        return r

    # emitting ----------------------------------------------------------------
    def emit(self, tpl, args=None, kw=None):
        if isinstance(tpl, str):
            tpl = BY_KIND[tpl]
        g = self.g
        if tpl.gen is not None:
            args, kw = getattr(g, "gen_" + tpl.gen)(self, tpl)
        else:
            if args is None:
                args = []
                prev = {}
                for a in tpl.args:
                    if isinstance(a, str) and a.startswith("*"):
                        args += g.star(self, a[1:])
                        continue
                    if a in prev and g.rng.random() < 0.2:
                        args.append(prev[a])      # aliasing: same object twice
                        continue
                    s = g.arg(self, a)
                    prev[a] = s
                    args.append(s)
            if kw is None:
                kw = {k: g.arg(self, v) for k, v in tpl.kw.items()}
        op = {"fn": list(tpl.fn), "args": args, "kind": tpl.kind}
        if kw:
            op["kw"] = kw
        if tpl.out:
            op["out"] = self.new_reg(tpl.out)
            if tpl.out.startswith("pt:") and "optimized" in tpl.out:
                op["ty"] = "pt3:" + tpl.out[3:]
            elif tpl.out.startswith("iso:"):
                op["ty"] = "pt3:" + tpl.out
        self.ops.append(op)
        self.cost += tpl.cost
        return op


class Gen:
    def __init__(self, rng, server, tier="quick"):
        self.rng = rng
        self.S = server
        self.tier = tier
        self.nreg = 0
        self.adhoc_used = set()
        self.enabled_fams = list(FAMS)
        self.dyn_p = {}
        self.distinct = False     # soak: literals are unique values, not pool values; "seq" =
        self.seq = 1              # consecutive small integers 2, 3, 4 ... instead of random ones
        self.prefer_lit = False   # first-use: literal encodings (their near misses follow)

    def fresh_reg(self):
        self.nreg += 1
        return "r%d" % self.nreg

    # ---- golden helpers ---------------------------------------------------
    def gold_value(self, fn, args):
        g = self.S.golden({"fn": fn, "args": args, "kw": {}, "adhoc": []})
        out = g.get("outcome")
        if out and out[0] == "ret":
            return out[1]
        return None

    def pool_pk(self, i):
        return self.gold_value(["c", "suite.G2Basic", "SkToPk"], [SKS[i]])

    def pool_sig(self, suite, i, j):
        return self.gold_value(["c", "suite." + suite, "Sign"], [SKS[i], B(MSGS[j])])

    def pool_pop(self, i):
        return self.gold_value(["c", "suite.G2ProofOfPossession", "PopProve"], [SKS[i]])

    def pool_z(self, grp, k):
        """canonical compressed encoding (int for G1, pair of ints for G2) of k*G"""
        g = self.S.arg_canon(const(OBLS, grp), {})
        pt = self.gold_value(["f", OBLS, "multiply"], [g, k])
        if pt is None:
            return None
        return self.gold_value(["f", BPC, "compress_" + grp], [pt])

    def z_variant(self, z):
        """the encoding itself or a close relative: one of the three flag bits of
        the first word flipped (sign flag = the encoding of -P), the second word's
        top bits touched, x + 1"""
        r = self.rng
        x = r.random()
        w = z[1][0] if isinstance(z, list) else z
        if x < 0.4:
            return z
        if x < 0.75:
            w ^= 1 << 381                       # a_flag: the encoding of the negated point
        elif x < 0.85:
            w ^= 1 << r.choice([382, 383])
        elif x < 0.95:
            w += 1
        else:
            w ^= 1 << r.randrange(381)
        if isinstance(z, list):
            rest = list(z[1][1:])
            if r.random() < 0.1 and rest:
                rest[0] ^= 1 << r.choice([381, 382, 383])
            return [z[0], [w] + rest]
        return w

    # ---- literals -----------------------------------------------------------
    def rand_bits(self, n):
        return self.rng.getrandbits(n)

    def next_seq(self):
        self.seq += 1
        return self.seq

    def lit_int(self):
        r = self.rng
        if self.distinct == "seq":
            return self.next_seq()
        if self.distinct:
            return r.getrandbits(r.choice([40, 160, 256]))
        return r.choice([0, 1, 2, 3, -1, 5, 7, 255, 256, 2**64, 2**255 - 19, BLS_P, BN_P, -BN_P,
                         r.getrandbits(16), r.getrandbits(64), r.getrandbits(256),
                         r.getrandbits(400), -r.getrandbits(100)])

    def lit_intv(self, fam):
        r = self.rng
        p = self.dyn_p.get(fam) or fam_info(fam)["p"]
        if self.distinct == "seq" and p > 10 ** 6:
            return self.next_seq()
        if self.distinct and p > 10 ** 6:
            return r.randrange(p)
        x = r.random()
        if x < 0.45:
            return r.choice([0, 1, 2, 3, 4, 5, 7, p - 1, p - 2, (p - 1) // 2, (p + 1) // 2])
        if x < 0.55:
            return r.choice([p, p + 1, -1, -2, 2 * p + 3, -p, 2**400 + 1])
        if x < 0.75:
            return (0x1234567 * (1 + r.randrange(8)) ** 5) % p   # small fixed pool
        return r.randrange(p) if p > 100 else r.randrange(p * 3)

    def lit_exp(self):
        r = self.rng
        x = r.random()
        if x < 0.35:
            return r.choice([0, 1, 2, 3, 4, 5, 7, 8, 16, 17, 255, 65537])
        if x < 0.6:
            return r.getrandbits(r.choice([16, 32, 64]))
        if x < 0.85:
            return r.choice([BLS_P, BN_P, (BLS_P + 1) // 4, BLS_R, BN_R, BLS_P - 2,
                             r.getrandbits(255), r.getrandbits(381)])
        if x < 0.96:
            return r.getrandbits(r.choice([500, 600, 640]))
        if x < 0.98:
            return r.getrandbits(1400) | (1 << 1399)      # resource-indeterminate zone
        return -r.choice([1, 2, 5])

    def lit_scalar(self, fam):
        r = self.rng
        order = fam_info(fam)["r"]
        if self.distinct:
            return r.getrandbits(r.choice([48, 64, 96]))
        x = r.random()
        if x < 0.3:
            return r.choice([0, 1, 2, 3, 5, 7, 10, 100])
        if x < 0.55:
            return r.choice([order - 1, order, order + 1, order - 2, 2 * order,
                             0x1234567890ABCDEF1234567890ABCDEF1234567890ABCDEF1234567890ABCD,
                             0x0FEDCBA987654321])
        if x < 0.9:
            return r.getrandbits(r.choice([64, 128, 254, 255]))
        return r.getrandbits(r.choice([381, 512]))

    def lit_bytes(self, kind):
        r = self.rng
        if self.distinct and kind != "dst":
            n = 32 if kind in ("b32", "ikm") else r.choice([8, 32, 32, 48, 64])
            return bytes(r.getrandbits(8) for _ in range(n))
        if kind == "msg":
            if r.random() < 0.75:
                return bytes(r.choice(MSGS))
            return bytes(r.getrandbits(8) for _ in range(r.choice([1, 31, 55, 56, 64, 65, 200])))
        if kind == "dst":
            return r.choice([b"BLS_SIG_BLS12381G2_XMD:SHA-256_SSWU_RO_NUL_",
                             b"BLS_SIG_BLS12381G2_XMD:SHA-256_SSWU_RO_POP_",
                             b"QUUX-V01-CS02-with-BLS12381G2_XMD:SHA-256_SSWU_RO_", b"", b"x" * 255,
                             b"y" * 256])
        if kind == "b32":
            x = r.random()
            if x < 0.5:
                return r.choice([b"\x01" * 32, b"\x22" * 32, b"\x00" * 31 + b"\x01",
                                 (SECP_N - 1).to_bytes(32, "big"), b"\xff" * 32, b"\x00" * 32,
                                 SECP_N.to_bytes(32, "big")])
            return bytes(r.getrandbits(8) for _ in range(32 if x < 0.95 else r.choice([0, 31, 33])))
        if kind == "ikm":
            return r.choice([b"\x00" * 32, b"ikm-1" * 8, bytes(range(32)), b"", b"short"])
        n = r.choice([0, 1, 16, 32, 32, 33, 48, 64, 96, 200])
        if r.random() < 0.5:
            return bytes([n % 251]) * n
        return bytes(r.getrandbits(8) for _ in range(n))

    def near_lits(self, c):
        """near misses of a literal canonical value, most telling first: one bit
        (a flag / top bit) flipped, +-1, one element dropped / swapped ... - what a
        memo keyed by a lossy digest of its argument (a masked word, a prefix, a
        length, a sorted copy) cannot tell from the original"""
        r = self.rng
        out = []
        if type(c) is int:
            if 0 < abs(c) < 2 ** 53:
                out.append(["float", repr(float(c))])      # equal as a number, not an int
            if c.bit_length() > 300:
                out += [c ^ (1 << 381), c ^ (1 << r.choice([382, 383]))]
            out += [c + 1, c - 1, -c, c ^ (1 << r.randrange(max(1, c.bit_length())))]
            return out[:2] + r.sample(out[2:], len(out) - 2)
        if isinstance(c, list) and len(c) == 2 and c[0] in ("bytes", "bytearray"):
            raw = bytearray(bytes.fromhex(c[1]))
            # the same contents in another bytes-like type (a memo that normalises its
            # key with bytes(...) answers what the function itself would refuse)
            out.append(["memoryview", c[1]])
            if len(raw) in (48, 96):
                f = bytearray(raw)
                f[0] ^= 0x20                     # sign flag: the negated point
                out.append([c[0], bytes(f).hex()])
            if raw:
                f = bytearray(raw)
                self.flip(f)
                out.append([c[0], bytes(f).hex()])
                out.append([c[0], bytes(raw[:-1]).hex()])
            out.append([c[0], bytes(raw + b"\x00").hex()])
            return out
        if isinstance(c, list) and len(c) == 2 and c[0] in ("tuple", "list") and c[1]:
            items = list(c[1])
            for i in range(min(len(items), 3)):
                for n in self.near_lits(items[i])[:1]:
                    out.append([c[0], items[:i] + [n] + items[i + 1:]])
            if len(items) > 1:
                out.append([c[0], items[1:] + items[:1]])
                out.append([c[0], items[:-1]])
            out.append([c[0], items + items[:1]])
            return out
        return out

    def flip(self, raw):
        """flip one bit of an encoding in place: a third of the time one of the
        three flag bits of the first byte (0x20 = sign: the negated point)"""
        r = self.rng
        if r.random() < 0.35:
            raw[0] ^= r.choice([0x20, 0x20, 0x40, 0x80])
        else:
            raw[r.randrange(len(raw))] ^= 1 << r.randrange(8)

    # ---- typed arguments ------------------------------------------------------
    def star(self, b, ty):
        """a register holding a 3-tuple spread over three parameters: not
        expressible without indexing, so produce the tuple's parts as ops"""
        # iso:G1 / iso:G2 results are tuples; iso_map takes x, y, z separately.
        regs = b.avail(ty)
        if not regs or self.rng.random() < 0.3:
            self.produce(b, ty)
            regs = b.avail(ty)
        r = self.rng.choice(regs)
        return [{"reg": r, "idx": 0}, {"reg": r, "idx": 1}, {"reg": r, "idx": 2}]

    def arg(self, b, ty):
        r = self.rng
        if isinstance(ty, dict):
            return ty
        # rare type confusion: any register at all
        if r.random() < 0.02:
            # (registers holding plain ints are excluded: int ** 600-bit-int never ends)
            allr = [x for x in b.all_regs() if x[0] not in ("sk", "z:G1", "z:G2")]
            if allr:
                return {"reg": r.choice(allr)[1]}
        if ty == "int":
            return lit(self.lit_int())
        if ty == "uint":
            return lit(abs(self.lit_int()))
        if ty == "uint256":
            if self.distinct:
                return lit(r.getrandbits(256))
            return lit(r.choice([0, 1, 2, SECP_N - 1, SECP_P - 1, r.getrandbits(256)]))
        if ty == "modulus":
            return lit(r.choice([7, 13, BN_P, BLS_P, SECP_N, SECP_P, BLS_R, 2, 1]))
        if ty == "int_or_fq":
            if r.random() < 0.5:
                return lit(self.lit_int())
            return self.arg(b, "fld:optimized_bls12_381:FQ")
        if ty.startswith("intv:"):
            return lit(self.lit_intv(ty[5:]))
        if ty == "exp":
            return lit(self.lit_exp())
        if ty.startswith("scalar:"):
            return lit(self.lit_scalar(ty[7:]))
        if ty == "scalar16":
            return lit(r.choice([0, 1, 2, 3, 5, 17, 255, 65537, r.getrandbits(16),
                                 ["bool", 1]]))
        if ty == "secp:scalar":
            return lit(r.choice([0, 1, 2, 3, SECP_N - 1, SECP_N, SECP_N + 1, -1, -5,
                                 r.getrandbits(256), r.getrandbits(512), r.getrandbits(64)]))
        if ty == "false":
            return lit(["bool", 0])
        if ty == "bool":
            return lit(["bool", r.randrange(2)])
        if ty == "count":
            return lit(r.choice([1, 2, 2, 3, 8, 0]))
        if ty == "len":
            return lit(r.choice([0, 1, 31, 32, 33, 48, 64, 128, 255, 256, 8160, 8161, 65535,
                                 255 * 32 + 1]))
        if ty == "smalllen":
            return lit(r.choice([0, 1, 2, 32, 48, 96]))
        if ty == "byte_or_int":
            return lit(r.choice([0, 65, 255, ["bytes", "41"], ["str", "A"]]))
        if ty == "hashfn":
            return lit(r.choice(HASHFNS))
        if ty == "z384":
            return lit(r.choice([0, 2**383, 2**383 + 2**382, 2**384 - 1, r.getrandbits(384),
                                 2**383 + 2**381 + 5]))
        if ty.startswith("intlist"):
            n = {"intlist2": 2, "intlist3": 3, "intlist12": 12}.get(ty) or \
                r.choice([1, 2, 3, 4, 12, 13])
            vals = [r.choice([0, 0, 1, 2, 3, -1, 5, r.getrandbits(8)]) for _ in range(n)]
            if ty == "intlist" and r.random() < 0.5:
                vals[-1] = vals[-1] or 1
            return lit(["list" if r.random() < 0.7 else "tuple", vals])
        if ty.startswith("coeffs:"):
            _, fam, lvl = ty.split(":")
            n = DEG[lvl]
            x = r.random()
            if x < 0.1:
                n = r.choice([n - 1, n + 1])     # wrong length: error path
            if self.distinct:
                vals = [self.lit_intv(fam)] + [r.choice([0, 1, 2]) for _ in range(n - 1)]
            elif x < 0.55:
                vals = [r.choice([0, 0, 0, 1, 2, 3, 5]) for _ in range(n)]
            else:
                vals = [self.lit_intv(fam) for _ in range(n)]
            return lit(["list" if r.random() < 0.6 else "tuple", vals])
        if ty.startswith("fqlist:"):
            _, fam, lvl = ty.split(":")
            n = DEG[lvl]
            return {"list": [self.arg(b, "fld:%s:FQ" % fam) for _ in range(n)]}
        if ty.startswith("constb:"):
            _, fam, name = ty.split(":")
            if r.random() < 0.85:
                return const(FAMS[fam]["mod"], name)
            lvl = {"b": "FQ", "b2": "FQ2", "b12": "FQ12"}[name]
            return self.arg(b, "fld:%s:%s" % (fam, lvl))
        if ty.startswith("b:"):
            return self.arg_bytes(b, ty)
        if ty == "sk":
            return self.arg_sk(b)
        if ty in ("z:G1", "z:G2") and r.random() < (0.85 if self.prefer_lit else 0.45):
            z = self.pool_z(ty[2:], r.choice([1, 2, 3, 5]))
            if z is not None:
                return lit(self.z_variant(z))
        # register-backed types
        if ty.startswith("pt:") and r.random() < 0.04:
            # an argument that is not a curve point: the constant's own x twice
            # (error paths of the callers that validate, garbage-in for the others)
            _, fam, grp = ty.split(":")
            m = FAMS[fam]["mod"]
            parts = [const(m, grp, 0), const(m, grp, 0)]
            if FAMS[fam]["opt"]:
                parts.append(const(m, grp, 2))
            return {"tuple": parts}
        regs = b.avail(ty)
        cands = self.consts_for(ty)
        x = r.random()
        if not self.distinct and (regs or cands) and ty.startswith(("fld:", "pt:")) and \
                r.random() < 0.05:
            # an equal argument made another way: a copy of something the caller holds
            src = {"reg": r.choice(regs)} if regs and (not cands or r.random() < 0.6) \
                else r.choice(cands)
            return {"copy": src, "how": r.choice(["copy", "deepcopy", "deepcopy", "pickle"])}
        if self.distinct:
            # soak: a fresh distinct value nearly always
            if cands and x < 0.06:
                return r.choice(cands)
            if regs and x < 0.12:
                return {"reg": r.choice(regs)}
            if self.produce(b, ty):
                return {"reg": b.avail(ty)[-1]}
        if regs and x < 0.55:
            return {"reg": r.choice(regs)}
        if cands and x < 0.8:
            return r.choice(cands)
        if not regs or x > 0.9:
            if not self.produce(b, ty):
                if cands:
                    return r.choice(cands)
                if regs:
                    return {"reg": r.choice(regs)}
                return lit(None)
            regs = b.avail(ty)
        return {"reg": regs[-1] if r.random() < 0.6 else r.choice(regs)}

    def arg_sk(self, b):
        r = self.rng
        if self.distinct:
            return lit(1 + r.getrandbits(250))
        x = r.random()
        regs = b.avail("sk")
        if regs and x < 0.25:
            return {"reg": r.choice(regs)}
        if x < 0.88:
            return lit(r.choice(SKS))
        return lit(r.choice([0, BLS_R, BLS_R + 1, -1, 2**255, ["str", "hello"], B(b"\x01"),
                             r.getrandbits(254) + 1,
                             # number-likes that compare equal to a pool key but are no ints
                             ["float", "1.0"], ["float", "42.0"], ["float", "42.0"],
                             ["bool", 1]]))

    def arg_bytes(self, b, ty):
        """bytes-typed argument; now and then the same bytes as a bytearray or a
        memoryview (what callers holding buffers pass)"""
        a = self._arg_bytes(b, ty)
        r = self.rng
        c = a.get("lit")
        if isinstance(c, list) and len(c) == 2 and c[0] == "bytes" and not self.distinct:
            x = r.random()
            if x < 0.07:
                return lit(["bytearray", c[1]])
            if x < 0.10:
                return lit(["memoryview", c[1]])
        return a

    def _arg_bytes(self, b, ty):
        r = self.rng
        kind = ty[2:]
        if not self.distinct and r.random() < 0.025:
            # not bytes at all: the call raises somewhere inside (error paths)
            return lit(r.choice([["str", "correct horse"], None, 7, ["list", [1, 2, 3]]]))
        regs = b.avail(ty)
        if regs and r.random() < 0.45:
            return {"reg": r.choice(regs)}
        if self.distinct and kind == "pk":
            op = b.emit("G2Basic.SkToPk", args=[lit(1 + r.getrandbits(250))])
            return {"reg": op["out"]}
        if kind == "pk":
            x = r.random()
            if x < 0.7:
                v = self.pool_pk(r.randrange(len(SKS)))
                if v is not None:
                    return lit(v)
            if x < 0.8:
                return lit(B(b"\xc0" + b"\x00" * 47))          # infinity
            if x < 0.9:
                v = self.pool_pk(0)
                if v is not None:
                    raw = bytearray(bytes.fromhex(v[1]))
                    self.flip(raw)
                    return lit(B(raw))
            return lit(B(bytes(r.getrandbits(8) for _ in range(r.choice([48, 48, 47, 49, 0])))))
        if kind == "sig":
            x = r.random()
            if x < 0.7:
                v = self.pool_sig(r.choice(SUITES), r.randrange(len(SKS)), r.randrange(3))
                if v is not None:
                    return lit(v)
            if x < 0.8:
                return lit(B(b"\xc0" + b"\x00" * 95))
            if x < 0.9:
                v = self.pool_sig("G2Basic", 0, 0)
                if v is not None:
                    raw = bytearray(bytes.fromhex(v[1]))
                    self.flip(raw)
                    return lit(B(raw))
            return lit(B(bytes(r.getrandbits(8) for _ in range(r.choice([96, 96, 95, 97, 48, 0])))))
        v = self.lit_bytes(kind)
        if kind in ("any",) and r.random() < 0.15:
            return lit(["bytearray", bytes(v).hex()])
        return lit(B(v))

    def consts_for(self, ty):
        out = []
        p = ty.split(":")
        if p[0] == "pt" and p[1] in FAMS:
            fam, grp = p[1], p[2]
            m = FAMS[fam]["mod"]
            out.append(const(m, grp))
            out.append(const(m, grp))
            if grp in ("G1", "G2"):
                out.append(const(m, "Z1" if grp == "G1" else "Z2"))
            if grp == "G1":
                pm = FAMS[fam]["pairing"]
                for n in ("two", "three", "negone", "negtwo"):
                    out.append(const(pm, n))
        elif p[0] == "fld" and p[1] in FAMS:
            fam, lvl = p[1], p[2]
            m = FAMS[fam]["mod"]
            if lvl == "FQ":
                out += [const(m, "b"), const(m, "G1", 0), const(m, "G1", 1)]
                if fam == "optimized_bls12_381":
                    out += [const(OCONST, "ISO_11_A"), const(OCONST, "ISO_11_Z"),
                            const(OCONST, "ISO_11_MAP_COEFFICIENTS", 0, 1),
                            const(OCONST, "SQRT_MINUS_11_CUBED")]
            elif lvl == "FQ2":
                out += [const(m, "b2"), const(m, "G2", 0), const(m, "G2", 1)]
                if fam == "optimized_bls12_381":
                    out += [const(OCONST, "ISO_3_A"), const(OCONST, "ISO_3_Z"),
                            const(OCONST, "ETAS", self.rng.randrange(4)),
                            const(OCONST, "POSITIVE_EIGHTH_ROOTS_OF_UNITY",
                                  self.rng.randrange(4)),
                            const(BCONST, "EIGHTH_ROOTS_OF_UNITY", self.rng.randrange(8)),
                            const(OCONST, "ISO_3_MAP_COEFFICIENTS", self.rng.randrange(4), 0)]
            else:
                out += [const(m, "b12"), const(m, "G12", 0), const(m, "G12", 1),
                        const(FAMS[fam]["curve"], "w")]
                if fam == "optimized_bls12_381":
                    out.append(const(OPAIR, "exptable", self.rng.randrange(12)))
        elif ty == "secp:pt":
            out += [const(SECP, "G"), lit(["tuple", [0, 0]])]
        elif ty == "secp:jac":
            out += [lit(["tuple", [0, 0, 1]]), lit(["tuple", [0, 0, 0]])]
        return out

    def produce(self, b, ty):
        """append ops to b so that a register of type ty exists; False if the
        generator has no producer for it"""
        if b.depth > 3:
            return False
        b.depth += 1
        try:
            r = self.rng
            p = ty.split(":")
            if p[0] == "fld":
                fam, lvl = p[1], p[2]
                k = "%s.%s" % (fam, lvl)
                if lvl == "FQ":
                    b.emit(k + ".ctor(int)")
                elif lvl == "FQP":
                    b.emit(k + (".ctor(deg2)" if r.random() < 0.6 else ".ctor(deg3)"))
                else:
                    b.emit(k + ".ctor(ints)")
                return True
            if p[0] == "pt":
                fam, grp = p[1], p[2]
                k = "%s.%s" % (fam, grp)
                m = FAMS[fam]["mod"]
                x = r.random()
                gconst = const(m, grp)
                if grp == "G12":
                    if x < 0.5:
                        b.emit(fam + ".twist")
                    elif x < 0.8:
                        b.emit(fam + ".cast_point_to_fq12")
                    else:
                        b.emit(k + ".double", args=[gconst])
                elif self.distinct:
                    b.emit(k + ".multiply", args=[gconst, lit(2 + r.getrandbits(40))])
                elif x < 0.4:
                    b.emit(k + ".multiply(small)",
                           args=[gconst, lit(r.choice([2, 3, 5, 7, 11, 65537]))])
                elif x < 0.7:
                    b.emit(k + ".double", args=[gconst])
                else:
                    b.emit(k + ".multiply", args=[gconst, lit(r.choice(
                        [fam_info(fam)["r"] - 1, 0x1234567890ABCDEF1234567890ABCDEF,
                         r.getrandbits(254)]))])
                return True
            if ty == "iso:G1":
                b.emit("swu.optimized_swu_G1")
                return True
            if ty == "iso:G2":
                b.emit("swu.optimized_swu_G2")
                return True
            if ty == "z:G1":
                x = r.random()
                if x < 0.5:
                    v = self.pool_pk(r.randrange(len(SKS)))
                    if v is not None:
                        # caller-side conversion bytes -> int needs no library call
                        z = int.from_bytes(bytes.fromhex(v[1]), "big")
                        reg = b.new_reg("z:G1")
                        b.ops.append({"fn": ["f", BHASH, "os2ip"], "args": [lit(v)],
                                      "out": reg, "kind": "hash.os2ip"})
                        del z
                        return True
                b.emit("pc.compress_G1")
                return True
            if ty == "z:G2":
                b.emit("pc.compress_G2")
                return True
            if ty == "secp:pt":
                b.emit(r.choice(["secp.privtopub", "secp.multiply", "secp.add"]))
                return True
            if ty == "secp:jac":
                b.emit("secp.to_jacobian")
                return True
            if ty == "secp:vrs":
                b.emit("secp.ecdsa_raw_sign")
                return True
            return False
        finally:
            b.depth -= 1

    # ---- custom argument generators (BLS verify family) -------------------------------
    def _suite_of(self, tpl):
        return tpl.fn[1].split(".", 1)[1]

    INF_PK = B(b"\xc0" + b"\x00" * 47)
    INF_SIG = B(b"\xc0" + b"\x00" * 95)

    def gen_verify(self, b, tpl):
        r = self.rng
        suite = self._suite_of(tpl)
        i, j = r.randrange(len(SKS)), r.randrange(3)
        pk, sig = self.pool_pk(i), self.pool_sig(suite, i, j)
        msg = B(MSGS[j])
        if pk is None or sig is None:
            return [lit(B(b"")), lit(msg), lit(B(b""))], {}
        if r.random() < 0.14:
            # inputs that only the explicit validation steps reject (identity key with
            # identity signature, over-long key, truncated signature, mutable message)
            k = r.randrange(5)
            if k == 0:
                return [lit(self.INF_PK), lit(msg), lit(self.INF_SIG)], {}
            if k == 1:
                return [lit(B(b"\x00" + bytes.fromhex(pk[1]))), lit(msg), lit(sig)], {}
            if k == 2:
                return [lit(pk), lit(["bytearray", msg[1]]), lit(sig)], {}
            if k == 3:
                return [lit(pk), lit(msg), lit(B(bytes.fromhex(sig[1])[:95]))], {}
            return [lit(self.INF_PK), lit(msg), lit(sig)], {}
        x = r.random()
        regs = b.avail("b:sig")
        if x < 0.55:
            pass
        elif x < 0.65:
            msg = B(MSGS[(j + 1) % 3])
        elif x < 0.75:
            pk = self.pool_pk((i + 1) % len(SKS)) or pk
        elif x < 0.85 and regs:
            return [lit(pk), lit(msg), {"reg": r.choice(regs)}], {}
        elif x < 0.92:
            raw = bytearray(bytes.fromhex(sig[1]))
            self.flip(raw)
            sig = B(raw)
        else:
            return [self.arg(b, "b:pk"), lit(msg), self.arg(b, "b:sig")], {}
        return [lit(pk), lit(msg), lit(sig)], {}

    def gen_popverify(self, b, tpl):
        r = self.rng
        i = r.randrange(len(SKS))
        pk, proof = self.pool_pk(i), self.pool_pop(i)
        if pk is None or proof is None:
            return [lit(B(b"")), lit(B(b""))], {}
        if r.random() < 0.1:
            return [lit(self.INF_PK), lit(self.INF_SIG)], {}
        x = r.random()
        if x < 0.6:
            pass
        elif x < 0.8:
            pk = self.pool_pk((i + 1) % len(SKS)) or pk
        else:
            proof = self.pool_sig("G2ProofOfPossession", i, 0) or proof
        return [lit(pk), lit(proof)], {}

    def gen_aggregate(self, b, tpl):
        r = self.rng
        suite = self._suite_of(tpl)
        if suite == "BaseG2Ciphersuite":
            suite = "G2Basic"
        n = r.choice([0, 1, 2, 2, 3, 4])
        items = []
        regs = b.avail("b:sig")
        for _ in range(n):
            if regs and r.random() < 0.3:
                items.append({"reg": r.choice(regs)})
            else:
                items.append(self.arg_bytes(b, "b:sig") if r.random() < 0.2 else
                             lit(self.pool_sig(suite, r.randrange(len(SKS)), r.randrange(3))
                                 or B(b"")))
        if items and r.random() < 0.2:
            items.append(items[0])   # the same object twice
        return [{"list": items} if r.random() < 0.8 else {"tuple": items}], {}

    def gen_aggpks(self, b, tpl):
        r = self.rng
        n = r.choice([0, 1, 2, 3])
        items = [lit(self.pool_pk(r.randrange(len(SKS))) or B(b"")) for _ in range(n)]
        return [{"list": items}], {}

    def gen_aggverify(self, b, tpl):
        r = self.rng
        suite = self._suite_of(tpl)
        n = r.choice([1, 2, 2, 3]) if suite == "G2Basic" else r.choice([1, 2, 3, 3])
        idx = r.sample(range(len(SKS)), n)
        if r.random() < 0.7:
            j0 = r.randrange(3)
            js = [(k % 3) for k in range(j0, j0 + n)]
            if suite == "G2Basic" and r.random() < 0.8:
                js = r.sample(range(3), min(n, 3))
                idx = idx[:len(js)]
        else:
            js = [r.randrange(3) for _ in idx]
        if suite != "G2Basic" and n >= 3 and r.random() < 0.7:
            # repeated messages are legal outside the basic suite: a, b, a
            a_, b_ = r.sample(range(3), 2)
            js = [a_, b_, a_][:n] if r.random() < 0.5 else [a_, a_, b_][:n]
        pks = [self.pool_pk(i) for i in idx]
        sigs = [self.pool_sig(suite, i, j) for i, j in zip(idx, js)]
        if not sigs or any(x is None for x in pks + sigs):
            return [{"list": []}, {"list": []}, lit(B(b""))], {}
        agg = self.gold_value(["c", "suite." + suite, "Aggregate"], [["list", sigs]])
        if agg is None:
            agg = B(b"")
        msgs = [B(MSGS[j]) for j in js]
        if r.random() < 0.1:
            k = r.randrange(3)
            if k == 0:
                return [{"list": []}, {"list": []}, lit(self.INF_SIG)], {}
            if k == 1:
                extra = B(MSGS[(js[-1] + 1) % 3])
                return [{"list": [lit(p) for p in pks]},
                        {"list": [lit(m) for m in msgs + [extra]]}, lit(agg)], {}
            return [{"list": [lit(self.INF_PK)]}, {"list": [lit(msgs[0])]},
                    lit(self.INF_SIG)], {}
        x = r.random()
        if x < 0.12:
            msgs = msgs[:-1]
        elif x < 0.24:
            agg = sigs[0]
        elif x < 0.32:
            pks = list(reversed(pks))
        elif x < 0.5 and len(pks) > 1:
            # rejected in the middle of the key loop: a bad key after a good one
            bad = r.choice([B(b"\xc0" + b"\x00" * 47), B(b"\x00" * 48), B(b"\xff" * 48)])
            pks = pks[:1] + [bad] + pks[2:]
        mk = "list" if r.random() < 0.8 else "tuple"
        return [{mk: [lit(p) for p in pks]}, {mk: [lit(m) for m in msgs]}, lit(agg)], {}

    def gen_fastaggverify(self, b, tpl):
        r = self.rng
        n = r.choice([1, 2, 3])
        idx = r.sample(range(len(SKS)), n)
        j = r.randrange(3)
        pks = [self.pool_pk(i) for i in idx]
        sigs = [self.pool_sig("G2ProofOfPossession", i, j) for i in idx]
        if any(x is None for x in pks + sigs):
            return [{"list": []}, lit(B(b"")), lit(B(b""))], {}
        agg = self.gold_value(["c", "suite.G2ProofOfPossession", "Aggregate"],
                              [["list", sigs]]) or B(b"")
        msg = B(MSGS[j])
        if r.random() < 0.1:
            k = r.randrange(3)
            if k == 0:
                return [{"list": []}, lit(msg), lit(self.INF_SIG)], {}
            if k == 1:
                return [{"list": [lit(self.INF_PK)]}, lit(msg), lit(self.INF_SIG)], {}
            return [{"list": [lit(B(bytes.fromhex(pks[0][1])[:47]))] + [lit(p) for p in pks[1:]]},
                    lit(msg), lit(agg)], {}
        x = r.random()
        if x < 0.15:
            pks = pks[:-1]
        elif x < 0.3:
            msg = B(MSGS[(j + 1) % 3])
        elif x < 0.42 and len(pks) > 1:
            pks = pks[:1] + [B(b"\xc0" + b"\x00" * 47)] + pks[2:]
        return [{"list": [lit(p) for p in pks]}, lit(msg), lit(agg)], {}

    # ---- programs ----------------------------------------------------------------------
    def choose_templates(self, groups, max_cost):
        return [t for t in TEMPLATES if t.group in groups and t.cost <= max_cost]

    def fill(self, b, cands, nops, budget):
        r = self.rng
        ws = [t.w for t in cands]
        guard = 0
        while len(b.ops) < nops and guard < nops * 4:
            guard += 1
            t = r.choices(cands, ws)[0]
            if b.cost + t.cost > budget and len(b.ops) > 0:
                if all(b.cost + c.cost > budget for c in cands):
                    break
                continue
            b.emit(t)

    def add_evictions(self, ops, p=0.15, gc_p=0.5):
        """insert evict/gc pseudo-ops after the last use of a register"""
        from .ops import op_regs
        r = self.rng
        last = {}
        own = {op["out"] for op in ops if op.get("out")}
        for i, op in enumerate(ops):
            if "pseudo" in op:
                continue
            for x in op_regs(op):
                if x in own:
                    last[x] = i
            if op.get("out"):
                last.setdefault(op["out"], i)
        out = []
        for i, op in enumerate(ops):
            out.append(op)
            dead = [x for x, li in last.items() if li == i]
            dead = [x for x in dead if r.random() < p]
            if dead:
                out.append({"pseudo": "evict", "regs": sorted(dead)})
                if r.random() < gc_p:
                    out.append({"pseudo": "gc"})
        return out


# ==========================================================================
# scenarios, schedules, fault plans
# ==========================================================================
FAULT_KINDS = [("SimInterrupt", 40), ("KeyboardInterrupt", 20), ("MemoryError", 10),
               ("RecursionError", 10), ("TimeoutError", 5), ("ValueError", 10),
               ("AssertionError", 5)]
COST_CLASS = {"light": (25, 150), "medium": (140, 800), "heavy": (2000, 2600)}


def _spec_regs(op):
    from .ops import op_regs
    return op_regs(op)


def _real_ops(ops):
    return [i for i, op in enumerate(ops) if "pseudo" not in op]


class Scenarios(Gen):
    def new_spec(self, scenario):
        self.nreg = 0
        r = self.rng
        knobs = {"gc": "enabled" if r.random() < 0.25 else "disabled",
                 # (an application may put the limit back to CPython's default of 1000)
                 "recursion_limit_after_import": r.choice([3000, 1500, 1000])
                 if r.random() < 0.15 else None}
        names = getattr(self.S, "env_names", None) or []
        if names and r.random() < 0.35:
            # ambient inputs: environment variables the sources mention, set by the caller
            knobs["env"] = {n: r.choice(["1", "0", "true", ""]) for n in
                            r.sample(names, r.randint(1, len(names)))}
        if r.random() < 0.06:
            knobs["cwd"] = "/"
        return {"format": 1, "property": "C20", "scenario": scenario, "adhoc_classes": [],
                "knobs": knobs, "prelude": [], "tasks": [],
                "schedule": {"first": 0, "switches": [], "at_op_boundaries": []},
                "faults": []}

    def enable_adhoc(self, spec, fams):
        have = {a["name"] for a in spec["adhoc_classes"]}
        fams = [q for f in fams for q in ADHOC_REQUIRES.get(f, []) + [f]]
        for f in fams:
            for c in ADHOC[f]:
                if c["name"] not in have:
                    spec["adhoc_classes"].append(c)
                    have.add(c["name"])

    def adhoc_of_template(self, tpl):
        if tpl.group.startswith("field:") and tpl.group[6:] in ADHOC:
            return [tpl.group[6:]]
        return []

    # ---- schedules ------------------------------------------------------------------
    def plan_schedule(self, spec, style=None):
        r = self.rng
        tasks = spec["tasks"]
        n = len(tasks)
        sched = spec["schedule"]
        sched["first"] = r.randrange(n) if n else 0
        if n < 2:
            return
        style = style or r.choice(["pct", "pct", "pct", "storm", "boundary", "none", "mixed"])
        sched["style"] = style
        real = [(t, k) for t in range(n) for k in _real_ops(tasks[t])]
        if not real:
            return
        if style in ("pct", "mixed"):
            for _ in range(r.randint(1, 6)):
                t, k = r.choice(real)
                sched["switches"].append({"task": t, "op": k, "frac": r.random(),
                                          "to": r.choice([u for u in range(n) if u != t]),
                                          "check": r.random() < 0.25})
        if style in ("boundary", "mixed"):
            seen = set()
            for _ in range(r.randint(1, 8)):
                t, k = r.choice(real)
                if (t, k) in seen:
                    continue
                seen.add((t, k))
                sched["at_op_boundaries"].append(
                    {"task": t, "op": k, "to": r.choice([u for u in range(n) if u != t])})
        if style == "storm":
            self.plan_storm(spec, [(t, r.choice(_real_ops(tasks[t])))
                                   for t in range(n) if _real_ops(tasks[t])])

    def plan_storm(self, spec, targets, lo=8, hi=60):
        """dense ping-pong between the given (task, op) pairs"""
        r = self.rng
        n = len(spec["tasks"])
        for t, k in targets:
            m = r.randint(lo, hi)
            x = r.random()
            if x < 0.3:      # concentrate near the start (first-use windows)
                fr = sorted(r.random() ** 3 for _ in range(m))
            elif x < 0.45:   # concentrate near the end
                fr = sorted(1 - r.random() ** 3 for _ in range(m))
            else:
                fr = sorted(r.random() for _ in range(m))
            # first-use windows are short and at the very start: always probe them
            # (a context switch costs microseconds: be generous)
            fr = sorted(fr + [r.random() * 0.004, r.random() * 0.03, r.random() * 0.12,
                              r.random() * 0.35] +
                        [r.random() * 0.02 for _ in range(6)] +
                        [r.random() ** 2 * 0.2 for _ in range(6)])
            others = [u for u in range(n) if u != t]
            for i, f in enumerate(fr):
                spec["schedule"]["switches"].append(
                    {"task": t, "op": k, "frac": f, "to": others[i % len(others)],
                     "check": i % 17 == 3})

    # ---- faults ---------------------------------------------------------------------
    def plan_faults(self, spec, nf=None, include_prelude=True):
        r = self.rng
        if nf is None:
            nf = r.choice([1, 1, 1, 2, 2, 3, 4])
        real = [(t, k) for t in range(len(spec["tasks"])) for k in _real_ops(spec["tasks"][t])]
        if include_prelude:
            real += [(-1, k) for k in _real_ops(spec["prelude"])]
        if not real:
            return
        used = set()
        for _ in range(nf):
            t, k = r.choice(real)
            if (t, k) in used:
                continue
            used.add((t, k))
            if r.random() < 0.2:
                spec["faults"].append({"kind": "stack", "task": t, "op": k,
                                       "d": r.choice([8, 20, 40, 60, 120, 200, 300, 600])})
            else:
                x = r.random()
                frac = x ** 3 if r.random() < 0.3 else x
                spec["faults"].append({"kind": "async_exc", "task": t, "op": k, "frac": frac,
                                       "exc": r.choices([a for a, _ in FAULT_KINDS],
                                                        [w for _, w in FAULT_KINDS])[0]})

    # ---- scenarios ------------------------------------------------------------------
    def pick_groups(self, spec):
        r = self.rng
        fams = r.sample(list(FAMS), r.randint(1, 4))
        adhoc = r.sample(list(ADHOC), r.choice([0, 0, 1, 1, 2]))
        self.enable_adhoc(spec, adhoc)
        groups = set()
        for f in fams + adhoc:
            if r.random() < 0.8:
                groups.add("field:" + f)
        for f in fams:
            if r.random() < 0.7:
                groups.add("curve:" + f)
            if r.random() < 0.4:
                groups.add("pairing:" + f)
        for gname, p in (("swu", 0.3), ("h2c", 0.3), ("hash", 0.35), ("compress", 0.3),
                         ("g2prim", 0.3), ("secp", 0.35), ("utils", 0.15), ("generic", 0.15),
                         ("lazy", 0.1)):
            if r.random() < p:
                groups.add(gname)
        for s in SUITES:
            if r.random() < 0.3:
                groups.add("bls:" + s)
        if not groups:
            groups.add("field:" + fams[0])
        return groups

    def scn_random(self, cls="light", faults=False, max_ops=12, max_tasks=4):
        r = self.rng
        spec = self.new_spec("random-" + cls)
        groups = self.pick_groups(spec)
        max_cost, budget = COST_CLASS[cls]
        cands = self.choose_templates(groups, max_cost)
        if not cands:
            cands = self.choose_templates({"field:optimized_bls12_381"}, max_cost)
        pre = Builder(self)
        if r.random() < 0.6:
            self.fill(pre, [t for t in cands if t.out] or cands, r.randint(1, 4), budget / 3)
        ntasks = r.choice([1, 2, 2, 3, 3, 4][:max(1, min(6, max_tasks + 2))])
        ntasks = min(ntasks, max_tasks)
        heavy = [t for t in cands if t.cost > 140]
        for ti in range(ntasks):
            b = Builder(self, parent=pre)
            if cls == "heavy" and heavy and ti == 0:
                b.emit(r.choices(heavy, [t.w for t in heavy])[0])
                self.fill(b, [t for t in cands if t.cost <= 140] or cands,
                          len(b.ops) + r.randint(1, 4), budget)
            else:
                bud = budget if cls != "heavy" else 300
                self.fill(b, [t for t in cands if t.cost <= bud] or cands,
                          r.randint(2, max_ops), bud)
            ops = b.ops
            if r.random() < 0.35:
                ops = self.add_evictions(ops)
            spec["tasks"].append(ops)
        spec["prelude"] = pre.ops
        self.plan_schedule(spec)
        if faults:
            self.plan_faults(spec)
        return spec

    def scn_samekind(self, tpl, faults=False):
        r = self.rng
        spec = self.new_spec("samekind")
        spec["focus"] = tpl.kind
        self.enable_adhoc(spec, self.adhoc_of_template(tpl))
        pre = Builder(self)
        ntasks = 2 if tpl.cost > 100 else r.choice([2, 2, 3])
        targets = []
        shared = None
        used_shared = False
        pre_own = set()      # registers produced inside a task (not visible to the other tasks)
        for ti in range(ntasks):
            b = Builder(self, parent=pre)
            if shared is not None and r.random() < (0.5 if faults else 0.3) and \
                    not any(x in pre_own for x in _spec_regs(shared)):
                used_shared = True
                # the very same call (equal arguments) made by two callers at once:
                # callers that share work, wait for each other, or race for one slot
                op = {k_: v_ for k_, v_ in shared.items() if k_ != "out"}
                if tpl.out:
                    op["out"] = b.new_reg(tpl.out)
                b.ops.append(op)
            else:
                op = b.emit(tpl)
                pre_own.update(o_["out"] for o_ in b.ops if o_.get("out"))
            shared = op
            k1 = len(b.ops) - 1
            targets.append((ti, k1))
            if tpl.cost < 100 or r.random() < 0.5:
                b.emit(tpl)                       # again, after the storm
                if r.random() < 0.5:
                    targets.append((ti, len(b.ops) - 1))
            spec["tasks"].append(b.ops)
        spec["prelude"] = pre.ops
        spec["schedule"]["first"] = r.randrange(ntasks)
        spec["schedule"]["style"] = "storm"
        self.plan_storm(spec, targets, lo=12, hi=120)
        if faults:
            self.plan_faults(spec, nf=r.choice([1, 2]), include_prelude=False)
            first = spec["schedule"]["first"]
            own = [tg for tg in targets if tg[0] == first][:1] or targets[:1]
            if used_shared and not any(f["task"] == own[0][0] and f["op"] == own[0][1]
                                       for f in spec["faults"]):
                # the caller that starts first - the one everybody else may be waiting
                # for - is the one interrupted, late enough for the others to have arrived
                spec["faults"].append({"kind": "async_exc", "task": own[0][0],
                                       "op": own[0][1], "frac": 0.3 + 0.65 * r.random(),
                                       "exc": r.choice(["SimInterrupt", "KeyboardInterrupt",
                                                        "MemoryError", "TimeoutError"])})
        return spec

    def owned_args(self, b, tpl, op1):
        """the caller's own mutable objects around a call (first-use scenario):
        * a result that is a mutable container and is not kept: the caller modifies
          what it was handed, then makes the same call again;
        * a bytes argument passed as the caller's bytearray buffer, which the caller
          overwrites for the next call (same object, new contents);
        * a list argument the caller keeps, extends / shortens and passes again."""
        r = self.rng
        if tpl.cost > 400:
            return

        def clone(args=None, out=True):
            c = dict(op1)
            if args is not None:
                c["args"] = args
            if "out" in c:
                if out:
                    c["out"] = b.new_reg(tpl.out)
                else:
                    del c["out"]
            return c
        # (1) caller modifies the container it received
        b.ops.append(clone(out=False))
        b.ops.append({"pseudo": "mutate_last", "how": r.choice(["pop", "clear", "reverse"])})
        b.ops.append(clone())
        args1 = op1.get("args") or []
        # (2) bytes argument as a reused bytearray buffer
        bpos = [p for p, a in enumerate(args1) if isinstance(a.get("lit"), list) and
                len(a["lit"]) == 2 and a["lit"][0] in ("bytes", "bytearray", "memoryview")
                and a["lit"][1]]
        for pos in (bpos if tpl.cost <= 30 else bpos[:1] if tpl.cost <= 150 else [])[:3]:
            hx = args1[pos]["lit"][1]
            raw = bytearray(bytes.fromhex(hx))
            new = bytearray(raw)
            if r.random() < 0.5:
                new[r.randrange(len(new))] ^= 0x55
            else:
                new = bytearray(r.getrandbits(8) for _ in range(len(raw)))
            reg = self.fresh_reg()
            # the buffer starts with contents no earlier call has seen (a memo that
            # already holds an equal immutable key would not take the buffer in)
            first = bytearray(raw)
            first[0] ^= 0xA5
            b.ops.append({"pseudo": "mk", "out": reg, "value": ["bytearray", bytes(first).hex()]})
            a2 = list(args1)
            a2[pos] = {"reg": reg}
            b.ops.append(clone(a2))
            b.ops.append({"pseudo": "mutate_reg", "reg": reg, "how": "set",
                          "payload": bytes(new).hex()})
            b.ops.append(clone(a2))
            a3 = list(args1)
            a3[pos] = lit(["bytes", bytes(new).hex()])      # immutable bytes, same contents
            b.ops.append(clone(a3))
        # (4) the same call with one element after the first replaced by something the
        # library rejects (identity encoding, zeros, a truncated encoding), then the good
        # call again: work abandoned in the middle of a list must leave nothing behind
        lp = [p for p, a in enumerate(args1) if isinstance(a.get("list"), list)
              and len(a["list"]) >= 2 and all("lit" in x for x in a["list"])]
        if lp and tpl.cost <= 900:
            pos = r.choice(lp)
            items = args1[pos]["list"]
            j = r.randrange(1, len(items))
            c = items[j]["lit"]
            if isinstance(c, list) and len(c) == 2 and c[0] == "bytes":
                n = len(c[1]) // 2
                bad = r.choice([b"\xc0" + b"\x00" * max(0, n - 1), b"\x00" * n,
                                bytes.fromhex(c[1])[:-1], b"\xff" * n])
                a2 = list(args1)
                a2[pos] = {"list": items[:j] + [lit(B(bad))] + items[j + 1:]}
                b.ops.append(clone(a2))
                b.ops.append(clone())
        # (3) a list argument the caller keeps and changes
        lpos = [p for p, a in enumerate(args1) if isinstance(a.get("list"), list) and a["list"]
                and all("lit" in x for x in a["list"])]
        if lpos and tpl.cost <= 600:
            pos = r.choice(lpos)
            items = [x["lit"] for x in args1[pos]["list"]]
            reg = self.fresh_reg()
            b.ops.append({"pseudo": "mk", "out": reg, "value": ["list", items]})
            a2 = list(args1)
            a2[pos] = {"reg": reg}
            b.ops.append(clone(a2))
            how = r.choice(["append", "pop", "reverse"]) if len(items) > 1 else "append"
            m = {"pseudo": "mutate_reg", "reg": reg, "how": how}
            if how == "append":
                m["payload"] = r.choice(items)
            b.ops.append(m)
            b.ops.append(clone(a2))

    def scn_pairkind(self, tf, tg, faults=False):
        """two callers running *different* operations of the same module / class
        family at the same time (one temporarily changes what the other reads)"""
        r = self.rng
        spec = self.new_spec("pairkind")
        spec["focus"] = tf.kind + "|" + tg.kind
        self.enable_adhoc(spec, self.adhoc_of_template(tf) + self.adhoc_of_template(tg))
        pre = Builder(self)
        targets = []
        for ti, t in enumerate((tf, tg)):
            b = Builder(self, parent=pre)
            b.emit(t)
            targets.append((ti, len(b.ops) - 1))
            if t.cost < 150:
                b.emit(t)
                if r.random() < 0.5:
                    targets.append((ti, len(b.ops) - 1))
            spec["tasks"].append(b.ops)
        spec["prelude"] = pre.ops
        spec["schedule"]["first"] = r.randrange(2)
        spec["schedule"]["style"] = "storm"
        self.plan_storm(spec, targets, lo=6, hi=30)
        for s_ in spec["schedule"]["switches"]:
            if r.random() < 0.15:
                s_["check"] = True          # constants are looked at while one is suspended
        if faults:
            self.plan_faults(spec, nf=1, include_prelude=False)
        return spec

    def pair_partner(self, tf, max_cost=400):
        """another operation kind of the same group (module / suite / field family)"""
        cands = [t for t in TEMPLATES if t.group == tf.group and t.kind != tf.kind and
                 t.cost <= max_cost]
        if not cands:
            cands = [t for t in TEMPLATES if t.cost <= max_cost and t.kind != tf.kind and
                     t.group.split(":")[0] == tf.group.split(":")[0]]
        return self.rng.choice(cands) if cands else tf

    def scn_firstuse(self, tpl, faults=True):
        r = self.rng
        spec = self.new_spec("firstuse")
        spec["focus"] = tpl.kind
        self.enable_adhoc(spec, self.adhoc_of_template(tpl))
        b = Builder(self)
        self.prefer_lit = True
        op1 = b.emit(tpl)
        self.prefer_lit = False
        k1 = len(b.ops) - 1
        again = dict(op1)
        if "out" in again:
            again["out"] = b.new_reg(tpl.out)
        b.ops.append(again)                       # equal (the very same) arguments again
        b.emit(tpl)                               # and other arguments
        # vary exactly one argument, keep the others (the very same objects), then
        # the original call once more: a memo whose key leaves one argument out
        # answers the varied call with the first call's result
        if tpl.gen is None and op1.get("args") and len(op1["args"]) == len(tpl.args) \
                and not any(isinstance(a, str) and a.startswith("*") for a in tpl.args):
            npos = len(op1["args"])
            for pos in r.sample(range(npos), npos if (tpl.cost <= 120 and npos <= 4) else 1):
                varied = dict(op1)
                varied["args"] = list(op1["args"])
                for _ in range(6):                      # really another value
                    cand = self.arg(b, tpl.args[pos])
                    if cand != op1["args"][pos]:
                        break
                varied["args"][pos] = cand
                if "out" in varied:
                    varied["out"] = b.new_reg(tpl.out)
                b.ops.append(varied)
            # near misses of literal arguments (all other arguments unchanged)
            lits = [p for p in range(npos) if "lit" in op1["args"][p]]
            for pos in r.sample(lits, min(len(lits), 2 if tpl.cost <= 120 else 1)):
                for n in self.near_lits(op1["args"][pos]["lit"])[:2 if tpl.cost <= 30 else 1]:
                    if n == op1["args"][pos]["lit"]:
                        continue
                    nm = dict(op1)
                    nm["args"] = list(op1["args"])
                    nm["args"][pos] = lit(n)
                    if "out" in nm:
                        nm["out"] = b.new_reg(tpl.out)
                    b.ops.append(nm)
            # a point argument rebuilt by the caller from its coordinates: a fresh
            # tuple around the same coordinate objects, dropped after the call, then
            # another fresh tuple (same x object, the negated point's y) - what a memo
            # keyed by the identity of an argument container cannot tell apart once
            # the first container is dead and its address recycled
            ptpos = [p for p in range(npos) if isinstance(tpl.args[p], str) and
                     tpl.args[p].startswith("pt:") and tpl.args[p].split(":")[1] in FAMS and
                     ("reg" in op1["args"][p] or "const" in op1["args"][p]) and
                     "idx" not in op1["args"][p]]
            if ptpos and tpl.cost <= 600:
                pos = r.choice(ptpos)
                _, fam, grp = tpl.args[pos].split(":")
                src = op1["args"][pos]
                nc = 3 if FAMS[fam]["opt"] else 2

                def part(sp, i):
                    if "reg" in sp:
                        return {"reg": sp["reg"], "idx": i}
                    return {"const": sp["const"], "path": list(sp.get("path", [])) + [i]}
                ng = b.emit("%s.%s.neg" % (fam, grp), args=[src])
                same = {"tuple": [part(src, i) for i in range(nc)]}
                flipped = {"tuple": [part(src, 0), {"reg": ng["out"], "idx": 1}] +
                           [part(src, i) for i in range(2, nc)]}
                for variant in (same, flipped, same):
                    rb = dict(op1)
                    rb["args"] = list(op1["args"])
                    rb["args"][pos] = variant
                    if "out" in rb:
                        rb["out"] = b.new_reg(tpl.out)
                    b.ops.append(rb)
            if tpl.cost <= 150 or r.random() < 0.3:
                last = dict(op1)
                if "out" in last:
                    last["out"] = b.new_reg(tpl.out)
                b.ops.append(last)
        self.owned_args(b, tpl, op1)
        if r.random() < 0.5:
            b.ops.append({"pseudo": "check", "full": True})
        two = r.random() < 0.4
        spec["tasks"].append(b.ops)
        if two:
            b2 = Builder(self)
            b2.emit(tpl)
            spec["tasks"].append(b2.ops)
            spec["schedule"]["switches"].append(
                {"task": 0, "op": k1, "frac": r.random() ** 2, "to": 1, "check": True})
        if faults:
            x = r.random()
            if x < 0.25 and tpl.cost >= 0.3:
                spec["faults"].append({"kind": "stack", "task": 0, "op": k1,
                                       "d": r.choice([8, 20, 60, 120, 300])})
            else:
                spec["faults"].append({"kind": "async_exc", "task": 0, "op": k1,
                                       "frac": r.random() ** r.choice([1, 1, 3]),
                                       "exc": r.choices([a for a, _ in FAULT_KINDS],
                                                        [w for _, w in FAULT_KINDS])[0]})
        return spec

    def scn_crosscurve(self, faults=False):
        r = self.rng
        spec = self.new_spec("crosscurve")
        adhoc = r.sample(list(ADHOC), r.choice([1, 2, 3]))
        self.enable_adhoc(spec, adhoc)
        fams = list(FAMS) + adhoc
        lvl = r.choice(LEVELS)
        suffixes = [s for s in ("mul", "add", "sub", "truediv", "pow", "inv", "neg", "sgn0",
                                "ctor(ints)", "ctor(int)", "one", "eq")]
        b = Builder(self)
        rounds = r.randint(2, 3)
        order = []
        for _ in range(rounds):
            fs = fams[:]
            r.shuffle(fs)
            order += fs[: r.randint(3, len(fs))]
        sfx = r.sample(suffixes, 3)
        for fam in order:
            for s in sfx:
                k = "%s.%s.%s" % (fam, lvl, s)
                if k in BY_KIND:
                    b.emit(k)
        ops = b.ops
        if r.random() < 0.3:
            ops = self.add_evictions(ops, p=0.3)
        # optionally split round-robin over two callers
        if r.random() < 0.4 and len(ops) > 6:
            spec["tasks"] = [ops]
            b2 = Builder(self)
            fam2 = r.choice(fams)
            for s in sfx:
                k = "%s.%s.%s" % (fam2, lvl, s)
                if k in BY_KIND:
                    b2.emit(k)
            spec["tasks"].append(b2.ops)
            self.plan_schedule(spec, r.choice(["pct", "boundary", "storm"]))
        else:
            spec["tasks"] = [ops]
        if faults:
            self.plan_faults(spec, include_prelude=False)
        return spec

    def scn_evict(self, nops=40, faults=False):
        r = self.rng
        spec = self.new_spec("evict")
        groups = self.pick_groups(spec)
        cands = self.choose_templates(groups, 12)
        cands = [t for t in cands] or self.choose_templates({"field:optimized_bn128"}, 12)
        b = Builder(self)
        self.fill(b, cands, nops, 600)
        spec["tasks"] = [self.add_evictions(b.ops, p=0.6, gc_p=0.7)]
        if faults:
            self.plan_faults(spec, include_prelude=False)
        return spec


    # ---- same arguments across sibling entry points -------------------------------
    def scn_crosssuite(self, faults=False):
        """the same keys and messages used with all three ciphersuites in one
        history (a point/hash memo that forgets the domain separation tag, a tag
        or salt kept on the shared base class)"""
        r = self.rng
        spec = self.new_spec("crosssuite")
        i = r.randrange(len(SKS))
        js = r.sample(range(3), r.choice([1, 1, 2]))
        sk = lit(SKS[i])
        pk = self.pool_pk(i)
        ops = []

        def op(kind, args, out=None):
            t = BY_KIND[kind]
            o = {"fn": list(t.fn), "args": args, "kind": kind}
            if out:
                o["out"] = self.fresh_reg()
            return o
        heavy = r.random() < 0.5
        tags = [b"BLS_SIG_BLS12381G2_XMD:SHA-256_SSWU_RO_NUL_",
                b"BLS_SIG_BLS12381G2_XMD:SHA-256_SSWU_RO_AUG_",
                b"BLS_SIG_BLS12381G2_XMD:SHA-256_SSWU_RO_POP_",
                b"BLS_POP_BLS12381G2_XMD:SHA-256_SSWU_RO_POP_"]
        for suite in SUITES:
            per = []
            for j in js:
                m = lit(B(MSGS[j]))
                per.append(op(suite + ".Sign", [sk, m], out=True))
                sig = self.pool_sig(suite, i, j)
                if heavy and pk is not None and sig is not None and r.random() < 0.6:
                    per.append(op(suite + ".Verify", [lit(pk), m, lit(sig)]))
                if r.random() < 0.3:
                    per.append(op(suite + "._CoreSign", [sk, m, lit(B(r.choice(tags)))],
                                  out=True))
            per.append(op(suite + ".SkToPk", [sk], out=True))
            per.append(op(suite + ".KeyGen", [lit(B(b"ikm-1" * 8))], out=True))
            if r.random() < 0.5:
                per.append(op(suite + ".KeyGen(info)", [lit(B(b"ikm-1" * 8)), lit(B(b"info"))],
                              out=True))
            if pk is not None:
                per.append(op(suite + "._is_valid_pubkey", [lit(pk)]))
            if r.random() < 0.5:
                per.append(op(suite + ".Verify", [lit(self.INF_PK), lit(B(MSGS[js[0]])),
                                                  lit(self.INF_SIG)]))
            if r.random() < 0.25:
                sg = self.pool_sig(suite, i, js[0])
                if pk is not None and sg is not None:
                    per.insert(r.randrange(len(per) + 1),
                               op(suite + ".Verify", [lit(pk), lit(B(MSGS[js[0]])),
                                                      lit(B(bytes.fromhex(sg[1])[:95]))]))
            ops.append(per)
        # aggregates over repeated messages (legal outside the basic suite): a, b, a
        for q, suite in enumerate(SUITES):
            if suite == "G2Basic" or r.random() < 0.5:
                continue
            ks = r.sample(range(len(SKS)), 3)
            a_, b_ = r.sample(range(3), 2)
            jj = r.choice([[a_, b_, a_], [a_, a_, b_], [b_, a_, a_]])
            pks3 = [self.pool_pk(k) for k in ks]
            sg3 = [self.pool_sig(suite, k, j) for k, j in zip(ks, jj)]
            if any(v is None for v in pks3 + sg3):
                continue
            agg = self.gold_value(["c", "suite." + suite, "Aggregate"], [["list", sg3]])
            if agg is None:
                continue
            ops[q].append({"fn": ["c", "suite." + suite, "AggregateVerify"],
                           "args": [{"list": [lit(p) for p in pks3]},
                                    {"list": [lit(B(MSGS[j])) for j in jj]}, lit(agg)],
                           "kind": suite + ".AggregateVerify"})
        if r.random() < 0.6:
            ops[2].append(op("POP.PopProve", [sk], out=True))
            pop = self.pool_pop(i)
            if heavy and pk is not None and pop is not None and r.random() < 0.5:
                ops[2].append(op("POP.PopVerify", [lit(pk), lit(pop)]))
        # hash layer: same message, every tag
        hl = []
        if r.random() < 0.7:
            m = lit(B(MSGS[js[0]]))
            for tg in r.sample(tags, r.randint(2, 4)):
                hl.append(op(r.choice(["h2c.hash_to_G2", "h2c.hash_to_G2", "h2c.hash_to_G1"]),
                             [m, lit(B(tg)), lit(HASHFNS[0])], out=True))
        # interleave the suites: round-robin with random rotation, or suite by suite
        flat = []
        if r.random() < 0.6:
            order = list(range(3))
            r.shuffle(order)
            k = 0
            while any(ops[q] for q in order):
                q = order[k % 3]
                k += 1
                if ops[q]:
                    flat.append(ops[q].pop(0))
        else:
            order = list(range(3))
            r.shuffle(order)
            for q in order:
                flat += ops[q]
        for h in hl:
            flat.insert(r.randrange(len(flat) + 1), h)
        if r.random() < 0.35 and len(flat) > 6:
            cut = len(flat) // 2
            spec["tasks"] = [flat[:cut], flat[cut:]]
            self.plan_schedule(spec, r.choice(["pct", "boundary", "mixed"]))
        else:
            spec["tasks"] = [flat]
        if faults:
            self.plan_faults(spec, nf=r.choice([1, 2]), include_prelude=False)
        return spec

    def scn_usersuites(self, faults=False):
        """user-defined ciphersuite subclasses (own DST / POP_TAG / hash function, one
        deriving from another user suite) used next to the library's suites on the
        same keys and messages, in a seeded order: every signature must verify in
        its own suite only, and equal calls must agree with the history-free model"""
        r = self.rng
        spec = self.new_spec("usersuites")
        spec["adhoc_classes"] += [dict(u) for u in USER_SUITES]
        i = r.randrange(len(SKS))
        pk = self.pool_pk(i)
        j = r.randrange(3)
        m = lit(B(MSGS[j]))
        sk = lit(SKS[i])
        names = ["suite.G2Basic", "suite.G2ProofOfPossession", "adhoc.US1", "adhoc.US2",
                 "adhoc.US3", "adhoc.US4"]
        if r.random() < 0.3:
            names.append("suite.G2MessageAugmentation")
        r.shuffle(names)
        names = names[: r.randint(3, len(names))]
        if not any(n.startswith("adhoc.") for n in names):
            names[0] = "adhoc.US3"
        ops = []
        sigreg = {}
        for n in names:
            o = {"fn": ["c", n, "Sign"], "args": [sk, m], "kind": "usersuite.Sign",
                 "out": self.fresh_reg()}
            sigreg[n] = o["out"]
            ops.append(o)
            if r.random() < 0.4:
                ops.append({"fn": ["c", n, "SkToPk"], "args": [sk], "kind": "usersuite.SkToPk",
                            "out": self.fresh_reg()})
            if r.random() < 0.3:
                ops.append({"fn": ["c", n, "KeyGen"], "args": [lit(B(b"ikm-1" * 8))],
                            "kind": "usersuite.KeyGen", "out": self.fresh_reg()})
        if pk is not None:
            checks = []
            for n in names:
                checks.append({"fn": ["c", n, "Verify"],
                               "args": [lit(pk), m, {"reg": sigreg[n]}],
                               "kind": "usersuite.Verify"})
                if r.random() < 0.5:
                    other = r.choice([x for x in names if x != n] or [n])
                    checks.append({"fn": ["c", n, "Verify"],
                                   "args": [lit(pk), m, {"reg": sigreg[other]}],
                                   "kind": "usersuite.Verify"})
            r.shuffle(checks)
            ops += checks[: r.randint(2, 5)]
        for n in names:
            if n in ("suite.G2ProofOfPossession", "adhoc.US2") and r.random() < 0.6:
                pr = self.fresh_reg()
                ops.append({"fn": ["c", n, "PopProve"], "args": [sk], "kind": "usersuite.PopProve",
                            "out": pr})
                if pk is not None:
                    ops.append({"fn": ["c", n, "PopVerify"], "args": [lit(pk), {"reg": pr}],
                                "kind": "usersuite.PopVerify"})
        # the first Sign calls once more at the end
        for o in list(ops[:2]):
            if o["kind"] == "usersuite.Sign":
                again = dict(o)
                again["out"] = self.fresh_reg()
                ops.append(again)
        if r.random() < 0.3 and len(ops) > 6:
            cut = len(ops) // 2
            # consumers of a signature register must stay behind its producer
            spec["prelude"] = ops[:cut]
            spec["tasks"] = [ops[cut:]]
        else:
            spec["tasks"] = [ops]
        if faults:
            self.plan_faults(spec, nf=1, include_prelude=False)
        return spec

    def scn_reentrant(self, faults=False):
        """user suites whose hooks (an overridden _is_valid_message, a plugged-in
        hash function) call into the library themselves: a nested library call on the
        same thread while an outer one is in progress; afterwards ordinary calls in
        all suites, compared with the history-free model as always"""
        r = self.rng
        spec = self.new_spec("reentrant")
        ks = r.sample(range(len(SKS)), 2)
        j = r.randrange(3)
        m = B(MSGS[j])
        pks = [self.pool_pk(k) for k in ks]
        sigs = [self.pool_sig("G2ProofOfPossession", k, j) for k in ks]
        if any(v is None for v in pks + sigs):
            return self.scn_usersuites(faults)
        agg = self.gold_value(["c", "suite.G2ProofOfPossession", "Aggregate"], [["list", sigs]])
        sig0 = self.pool_sig("G2Basic", ks[0], j)
        if agg is None or sig0 is None:
            return self.scn_usersuites(faults)
        nested_fav = {"fn": ["c", "suite.G2ProofOfPossession", "FastAggregateVerify"],
                      "args": [["list", pks], m, agg]}
        nested_ver = {"fn": ["c", "suite.G2Basic", "Verify"], "args": [pks[0], m, sig0]}
        nested_xmd = {"fn": ["f", BHASH, "expand_message_xmd"],
                      "args": [B(b"inner"), B(b"INNER-DST"), 48, HASHFNS[0]]}
        nested_h2c = {"fn": ["f", BH2C, "hash_to_G2"], "args": [B(b"inner"), B(b"INNER-DST"),
                                                                HASHFNS[0]]}
        spec["adhoc_classes"] += [
            {"name": "RS1", "base": "suite.G2ProofOfPossession", "attrs": {},
             "hooks": {"_is_valid_message": r.choice([nested_fav, nested_fav, nested_ver])}},
            {"name": "RS2", "base": "suite.G2Basic", "attrs": {},
             "hooks": {"_is_valid_signature": r.choice([nested_ver, nested_fav, nested_h2c])}},
            {"name": "RS3", "base": "suite.G2Basic", "attrs": {},
             "hooks": {"xmd_hash_function": r.choice([nested_xmd, nested_h2c])}},
        ]
        sk = lit(SKS[ks[0]])
        ops = []

        def o(cls, meth, args, out=False):
            d = {"fn": ["c", cls, meth], "args": args, "kind": "reentrant." + meth}
            if out:
                d["out"] = self.fresh_reg()
            ops.append(d)
            return d
        plist = {"list": [lit(p) for p in pks]}
        outer = [
            lambda: o("adhoc.RS1", "FastAggregateVerify", [plist, lit(m), lit(agg)]),
            lambda: o("adhoc.RS1", "Verify", [lit(pks[0]), lit(m), lit(sigs[0])]),
            lambda: o("adhoc.RS2", "Verify", [lit(pks[0]), lit(m), lit(sig0)]),
            lambda: o("adhoc.RS3", "Sign", [sk, lit(m)], out=True),
            lambda: o("adhoc.RS2", "Sign", [sk, lit(m)], out=True),
        ]
        r.shuffle(outer)
        for f in outer[: r.randint(2, 5)]:
            f()
        # afterwards: ordinary calls everywhere, among them keys that only the
        # subgroup / curve checks reject
        raw = bytearray(bytes.fromhex(pks[0][1]))
        for _ in range(4):
            q = bytearray(raw)
            q[r.randrange(1, 48)] ^= 1 << r.randrange(8)
            o(r.choice(["suite.G2Basic", "suite.G2ProofOfPossession",
                        "suite.G2MessageAugmentation"]), "KeyValidate", [lit(B(q))])
        o("suite.G2ProofOfPossession", "FastAggregateVerify", [plist, lit(m), lit(agg)])
        o("suite.G2Basic", "Verify", [lit(pks[0]), lit(m), lit(sig0)])
        o("suite.G2Basic", "Verify", [lit(self.INF_PK), lit(m), lit(self.INF_SIG)])
        o("suite.G2Basic", "Sign", [sk, lit(m)], out=True)
        o("suite.G2Basic", "KeyValidate", [lit(pks[1])])
        spec["tasks"] = [ops]
        if faults:
            self.plan_faults(spec, nf=1, include_prelude=False)
        return spec

    def scn_sharedvals(self, faults=False):
        """the same integers pushed through every field family (both curves,
        reference and optimized, ad-hoc classes) in a seeded order: a memo or
        class attribute whose key leaves out the class / the prime / the modulus
        polynomial answers one family with another family's value"""
        r = self.rng
        spec = self.new_spec("sharedvals")
        adhoc = r.sample(list(ADHOC), r.choice([1, 2, 3, 4]))
        self.enable_adhoc(spec, adhoc)
        adhoc = [a for a in ADHOC if any(c["name"].startswith(a + "_")
                                         for c in spec["adhoc_classes"])]
        fams = list(FAMS) + adhoc
        lvl = r.choice(["FQ", "FQ2", "FQ2", "FQ12"])
        deg = DEG[lvl]
        small = r.random() < 0.6

        def ints():
            if small:
                return [r.choice([0, 1, 2, 3, 4, 5, 6]) for _ in range(deg)]
            return [r.choice([0, 1, 2, r.getrandbits(60), r.getrandbits(200)])
                    for _ in range(deg)]
        va, vb = ints(), ints()
        if not any(va):
            va[0] = 3
        if not any(vb):
            vb[-1] = 2
        e = r.choice([2, 3, 5, 7, 11, 65537, r.getrandbits(40)])
        unary = r.sample(["neg", "inv", "sgn0", "repr"], 2)
        binary = r.sample(["mul", "add", "sub", "truediv", "eq"], 3)
        rounds = r.randint(2, 3)
        order = []
        for _ in range(rounds):
            fs = fams[:]
            r.shuffle(fs)
            order += fs[: r.randint(3, len(fs))]
        b = Builder(self)
        for fam in order:
            k = "%s.%s" % (fam, lvl)
            if lvl == "FQ":
                x = b.emit(k + ".ctor(int)", args=[lit(va[0])])
                y = b.emit(k + ".ctor(int)", args=[lit(vb[0])])
            else:
                x = b.emit(k + ".ctor(ints)", args=[lit(["list", list(va)])])
                y = b.emit(k + ".ctor(ints)", args=[lit(["tuple", list(vb)])])
            rx, ry = {"reg": x["out"]}, {"reg": y["out"]}
            for o in binary:
                if (k + "." + o) in BY_KIND:
                    b.emit(k + "." + o, args=[rx, ry])
            for o in unary:
                if (k + "." + o) in BY_KIND:
                    b.emit(k + "." + o, args=[rx])
            b.emit(k + ".pow", args=[rx, lit(e)])
            if (k + ".mul(x,int)") in BY_KIND and r.random() < 0.5:
                b.emit(k + ".mul(x,int)", args=[rx, lit(va[-1] + 2)])
        ops = b.ops
        if r.random() < 0.3:
            ops = self.add_evictions(ops, p=0.3)
        spec["tasks"] = [ops]
        if faults:
            self.plan_faults(spec, include_prelude=False)
        return spec

    def scn_classchurn(self, faults=False, rounds=None):
        """ad-hoc field classes are defined, used and dropped (then collected)
        inside the history, with other primes and modulus polynomials each time:
        library state keyed by the identity of a class or of its coefficient
        tuple outlives the class and is picked up by a later one"""
        r = self.rng
        spec = self.new_spec("classchurn")
        rounds = rounds or r.randint(5, 12)
        names = list(DYN_FAMS)
        r.shuffle(names)
        names = names[:rounds]
        ops = []
        alive = []          # [(fam, [regs])]
        lvl_choices = ["FQ2", "FQ2", "FQ12", "FQ"]
        for fam in names:
            opt = DYN_FAMS[fam]["opt"]
            p = r.choice(SMALL_PRIMES)
            self.dyn_p[fam] = p
            c2 = [r.randrange(1, p), r.choice([0, 0, r.randrange(p)])]
            c12 = [0] * 12
            c12[0] = r.randrange(1, p)
            c12[r.choice([3, 6, 6, 9])] = r.choice([-1, 1, -2, 2, r.randrange(1, p)])
            if r.random() < 0.2:
                c12 = [r.randrange(p) for _ in range(12)]
                c12[0] = c12[0] or 1
            base = "opt" if opt else "ref"
            x = r.random()
            # some classes derive from the library's own curve classes
            lib = None
            if x < 0.25:
                lib = r.choice(["optimized_bn128", "optimized_bls12_381"] if opt
                               else ["bn128", "bls12_381"])
            specs = []
            for lvl in LEVELS:
                attrs = {"field_modulus": p}
                if lvl == "FQ2":
                    attrs["FQ2_MODULUS_COEFFS"] = c2
                if lvl == "FQ12":
                    attrs["FQ12_MODULUS_COEFFS"] = c12
                specs.append({"name": "%s_%s" % (fam, lvl), "dynamic": True,
                              "base": ("%s_%s" % (lib, lvl)) if lib else "%s.%s" % (base, lvl),
                              "attrs": attrs})
            spec["adhoc_classes"] += specs
            ops.append({"pseudo": "defclass", "names": [c["name"] for c in specs]})
            b = Builder(self)
            lvl = r.choice(lvl_choices)
            k = "%s.%s" % (fam, lvl)
            n0 = DEG[lvl]
            if lvl == "FQ":
                b.emit(k + ".ctor(int)")
                b.emit(k + ".ctor(int)")
            else:
                b.emit(k + ".ctor(ints)", args=[lit(["list", [r.randrange(1, p)
                                                              for _ in range(n0)]])])
                b.emit(k + ".ctor(ints)", args=[lit(["tuple", [r.randrange(p)
                                                               for _ in range(n0)]])])
            cands = [t for t in DYN_TEMPLATES if t.group == "field:" + fam and
                     t.kind.startswith(k + ".") and
                     t.kind.rsplit(".", 1)[1] in ("mul", "pow", "inv", "truediv", "add", "sub",
                                                  "sgn0", "mul(x,int)", "eq", "neg", "one")]
            self.fill(b, cands, len(b.ops) + r.randint(2, 5), 1e9)
            ops += b.ops
            alive.append((fam, [c["name"] for c in specs],
                          [o["out"] for o in b.ops if o.get("out")]))
            # drop this class (or an older one) now, later, or never
            while alive and r.random() < (0.75 if len(alive) == 1 else 0.9):
                idx = r.randrange(len(alive)) if r.random() < 0.3 else 0
                fam_d, cls_d, regs_d = alive.pop(idx)
                ops.append({"pseudo": "dropclass", "names": cls_d, "regs": regs_d})
                if len(alive) == 0:
                    break
        spec["tasks"] = [ops]
        if r.random() < 0.25:
            b2 = Builder(self)
            cands = self.choose_templates({"field:optimized_bn128", "field:bls12_381"}, 5)
            self.fill(b2, cands, r.randint(3, 8), 200)
            spec["tasks"].append(b2.ops)
            self.plan_schedule(spec, r.choice(["pct", "boundary"]))
        if faults:
            self.plan_faults(spec, include_prelude=False)
        return spec


    def soak_candidates(self, max_cost):
        out = []
        for t in TEMPLATES:
            if t.gen is not None or not t.args or t.cost > max_cost:
                continue
            if t.group in ("lazy", "generic"):
                continue
            if t.group.startswith("field:") and t.group[6:] not in FAMS:
                continue
            if t.kind.endswith((".repr", ".eq", ".ne", ".lt", ".le", ".gt", ".ge", ".mod",
                                ".coeffs", ".int", ".is_inf")):
                continue
            out.append(t)
        return out

    def scn_soak(self, n=300, max_cost=12.0, nkinds=3, kinds=None, mode=None):
        """a long single-caller history: a few functions are called hundreds of
        times with *distinct* arguments (so that a bounded cache fills, overflows
        and wraps), earlier calls are repeated now and then, and the first calls
        are repeated at the end (hand-written LRU / ring buffers, call counters
        with periodic clean-up, tables extended on demand)"""
        r = self.rng
        spec = self.new_spec("soak")
        spec["monitor"] = "off"
        spec["knobs"] = {"gc": r.choice(["enabled", "disabled"]),
                         "recursion_limit_after_import": None}
        cands = self.soak_candidates(max_cost)
        # one function per group, expensive ones preferred (they are what gets cached)
        picked = []
        if kinds:
            # aimed at given kinds (second phase of a check)
            picked = [BY_KIND[k] for k in kinds if k in BY_KIND and BY_KIND[k].gen is None
                      and BY_KIND[k].args]
            for t in picked:
                self.enable_adhoc(spec, self.adhoc_of_template(t))
        groups = sorted({t.group for t in cands})
        for g in r.sample(groups, min(nkinds, len(groups))) if not picked else ():
            ts = [t for t in cands if t.group == g]
            picked.append(r.choices(ts, [0.2 + t.cost ** 0.5 for t in ts])[0])
        if not picked:
            picked = [r.choice(cands)]
        if not kinds and r.random() < 0.5:
            picked = picked[:1]          # one function alone (e.g. one modulus for a long time)
        spec["focus"] = "+".join(t.kind for t in picked)
        # probes: the same operation in the sibling families / suites (and the picked
        # kinds themselves) on ordinary pool arguments, before the long run and -
        # the very same calls - after it: what did the long run do to everybody else?
        probes = []
        pb = Builder(self)
        if mode is None:
            mode = "seq" if r.random() < 0.5 else True
        if mode == "seq":
            # small consecutive integers everywhere: the probes' operands 2, 3, 4 ...
            # are also among the long run's operands
            self.distinct = "seq"
            self.seq = 1
        for t in picked:
            sibs = [t] + self.siblings(t)
            for st in r.sample(sibs, min(len(sibs), 4)):
                self.enable_adhoc(spec, self.adhoc_of_template(st))
                for _ in range(2):
                    n0 = len(pb.ops)
                    pb.emit(st)
                    probes.append(pb.ops[-1])
        ops = list(pb.ops)
        self.distinct = mode
        self.seq = 1
        consumers = {t.kind: [] for t in picked}
        budget_ms = 7000.0
        per = max(40, min(n, int(budget_ms / max(0.5, sum(t.cost for t in picked)))))
        spent = 0.0
        for i in range(per):
            if spent > budget_ms and i >= 40:
                break                     # producers of the arguments count too
            for t in picked:
                bi = Builder(self)
                op = bi.emit(t)
                ops += bi.ops
                spent += bi.cost + 1.5 * len(bi.ops)     # + the fork of each golden evaluation
                consumers[t.kind].append(op)
                x = r.random()
                prev = None
                if x < 0.18 and len(consumers[t.kind]) > 2:
                    # a hit on a recent entry (re-orders a recency list)
                    prev = r.choice(consumers[t.kind][-40:])
                elif x < 0.30 and len(consumers[t.kind]) > 2:
                    # a hot entry: the first calls keep coming back through the whole
                    # history (they are never the oldest, whatever the cache turns over)
                    prev = r.choice(consumers[t.kind][:3])
                elif x < 0.33 and len(consumers[t.kind]) > 50:
                    prev = r.choice(consumers[t.kind])       # any earlier entry
                if prev is not None:
                    again = dict(prev)
                    if "out" in again:
                        again["out"] = self.fresh_reg()
                    ops.append(again)
        for t in picked:                      # after the history: the early calls again
            first = consumers[t.kind]
            for prev in first[:12] + r.sample(first, min(12, len(first))):
                again = dict(prev)
                if "out" in again:
                    again["out"] = self.fresh_reg()
                ops.append(again)
        self.distinct = False
        for prev in reversed(probes):         # ... and everybody else again, mirrored
            again = dict(prev)
            if "out" in again:
                again["out"] = self.fresh_reg()
            ops.append(again)
        spec["tasks"] = [ops]
        return spec

    def siblings(self, t):
        """the same operation in the other families / suites"""
        g = t.group
        if ":" not in g:
            return []
        head, fam = g.split(":", 1)
        out = []
        if head in ("field", "curve", "pairing"):
            fams = list(FAMS) + (["F7o", "F13r"] if head == "field" else [])
            for f in fams:
                if f == fam:
                    continue
                k = t.kind.replace(fam, f, 1)
                if k in BY_KIND and BY_KIND[k].gen is None and BY_KIND[k].cost <= 30:
                    out.append(BY_KIND[k])
        elif head == "bls":
            for f in SUITES:
                if f != fam:
                    k = t.kind.replace(fam, f, 1)
                    if k in BY_KIND and BY_KIND[k].gen is None and BY_KIND[k].cost <= 150:
                        out.append(BY_KIND[k])
        return out


def sweep_templates(max_cost=1e9):
    return [t for t in TEMPLATES if t.cost <= max_cost]


# ==========================================================================
# fresh-interpreter scenarios
# ==========================================================================
SUBPACKAGE_NAMES = ["bls", "bls12_381", "bn128", "optimized_bls12_381", "optimized_bn128",
                    "secp256k1"]
PKG_GROUPS = {
    "bls": ["hash", "h2c", "compress", "g2prim", "swu", "bls:G2Basic",
            "bls:G2ProofOfPossession", "bls:G2MessageAugmentation",
            "field:optimized_bls12_381"],
    "bls12_381": ["field:bls12_381", "curve:bls12_381"],
    "bn128": ["field:bn128", "curve:bn128"],
    "optimized_bls12_381": ["field:optimized_bls12_381", "curve:optimized_bls12_381", "swu"],
    "optimized_bn128": ["field:optimized_bn128", "curve:optimized_bn128"],
    "secp256k1": ["secp"],
}


def nth_permutation(items, n):
    items = list(items)
    out = []
    import math
    n %= math.factorial(len(items))
    for i in range(len(items), 0, -1):
        f = math.factorial(i - 1)
        out.append(items.pop(n // f))
        n %= f
    return out


class ColdScenarios(Scenarios):
    def _cold_spec(self, name, order, flags=None):
        r = self.rng
        spec = self.new_spec(name)
        spec["monitor"] = "global"
        spec["knobs"] = {"gc": "disabled", "recursion_limit_after_import": None,
                         **({"env": spec["knobs"]["env"]} if "env" in spec["knobs"] else {})}
        spec["server"] = {"mode": "cold", "import_order": list(order),
                          "hashseed": r.randrange(1, 2**32 - 1),
                          "flags": flags if flags is not None else
                          r.choice([[], [], [], ["-O"], ["-OO"]])}
        return spec

    def scn_cold(self, faults=False):
        r = self.rng
        k = r.choice([0, 0, 1, 1, 2, 3, 6])
        if faults and r.random() < 0.6:
            k = 0        # the interrupted import is the first thing this interpreter loads
        spec = self._cold_spec("cold", r.sample(SUBPACKAGE_NAMES, k))
        if r.random() < 0.4:
            self.enable_adhoc(spec, r.sample(list(ADHOC), 1))
        b = Builder(self)
        firsts = []
        order = spec["server"]["import_order"]
        implied = set(order) | ({"optimized_bls12_381"} if "bls" in order else set())
        cold_first = [n for n in SUBPACKAGE_NAMES if n not in implied]
        names = r.sample(SUBPACKAGE_NAMES, r.randint(1, 3))
        if cold_first and (faults or not any(n in cold_first for n in names)):
            # the first access is to a package that really has to be loaded; with a fault
            # planned, preferably one that pulls in other packages (something to leave
            # half done)
            w = [{"bls": 4.0, "secp256k1": 0.4}.get(n, 1.5) for n in cold_first]
            first = r.choices(cold_first, w)[0]
            names = [first] + [n for n in names if n != first][:2]
        if r.random() < (0.6 if not faults else 0.15):
            # use the field classes (py_ecc.fields only) and the generic bases
            # before any curve package has been imported (rarely when a fault is
            # planned: the interrupted import should have everything left to load)
            pre = [t for t in TEMPLATES if t.cost <= 2 and
                   (t.group in ("generic", "utils") or
                    (t.group.startswith("field:") and
                     (t.group[6:] in FAMS or
                      any(a["name"].startswith(t.group[6:] + "_")
                          for a in spec["adhoc_classes"]))))]
            self.fill(b, pre, r.randint(1, 5), 100)
        for name in names:
            how = r.choice(["getattr", "import", "from"])
            if faults and name in cold_first and not firsts:
                how = r.choice(["getattr", "from"])      # through the package's own loader
            b.emit("lazy.%s.%s" % (how, name))
            if name in cold_first:
                firsts.append(len(b.ops) - 1)
            b.emit("lazy.%s.%s" % (r.choice(["getattr", "import", "from"]), name))
            cands = [t for t in TEMPLATES if t.group in PKG_GROUPS[name] and t.cost <= 15]
            self.fill(b, cands, len(b.ops) + r.randint(1, 3), 400)
        gen = [t for t in TEMPLATES if t.group in ("generic", "utils")]
        self.fill(b, gen, len(b.ops) + r.randint(2, 4), 400)
        groups = {g for a in spec["adhoc_classes"] for g in ["field:" + a["name"].split("_")[0]]}
        anyc = [t for t in TEMPLATES if t.cost <= 15 and
                (not t.group.startswith("field:") or t.group[6:] in FAMS or t.group in groups)
                and t.group != "lazy"]
        self.fill(b, anyc, len(b.ops) + r.randint(2, 6), 600)
        self.fill(b, gen, len(b.ops) + r.randint(1, 3), 600)
        spec["tasks"] = [b.ops]
        if faults and firsts:
            k = firsts[0] if r.random() < 0.85 else r.choice(firsts)
            spec["faults"].append({"kind": "async_exc", "task": 0, "op": k, "frac": r.random(),
                                   "exc": r.choice(["SimInterrupt", "KeyboardInterrupt",
                                                    "MemoryError", "RecursionError",
                                                    "TimeoutError"])})
        return spec

    def scn_cold_order(self, perm_index):
        """all six sub-packages imported up front in the given order, then a fixed
        battery: generic base classes, one call per package, lazy accesses"""
        order = nth_permutation(SUBPACKAGE_NAMES, perm_index)
        spec = self._cold_spec("cold-order", order,
                               flags=[[], [], ["-O"], ["-OO"]][perm_index % 4])
        spec["perm_index"] = perm_index
        b = Builder(self)
        for t in TEMPLATES:
            if t.group == "generic":
                b.emit(t)
        for k in ("optimized_bls12_381.FQ2.ctor(ints)", "optimized_bls12_381.FQ2.mul",
                  "bn128.FQ2.ctor(ints)", "bn128.FQ2.mul", "bls12_381.FQ12.one",
                  "optimized_bn128.FQ12.ctor(ints)", "optimized_bn128.FQ12.inv",
                  "optimized_bn128.G1.multiply(small)", "bn128.G2.double",
                  "bls12_381.G1.add", "optimized_bls12_381.G2.normalize",
                  "secp.privtopub", "secp.ecdsa_raw_sign", "G2Basic.KeyGen",
                  "G2ProofOfPossession.SkToPk", "hash.expand_message_xmd",
                  "h2c.hash_to_G1", "pc.compress_G2", "optimized_bls12_381.exp_by_p",
                  "lazy.getattr.bls", "lazy.getattr.secp256k1", "lazy.getattr.nonexistent"):
            b.emit(k)
        spec["tasks"] = [b.ops]
        return spec
