"""Operation language: how a JSON op spec becomes a call into py_ecc.

fn refs
  ["f", module, name]          module-level function
  ["o", opname]                Python operator applied to the arguments
  ["a", attr]                  getattr(arg0, attr)            (e.g. sgn0, coeffs)
  ["call", meth]               arg0.meth(*rest)
  ["c", clsname, meth]         getattr(class, meth)(*args); meth "" = constructor
  ["lazy", how, name]          lazy-loader access on the py_ecc package

arg specs
  {"lit": canon}               fresh object rebuilt from its canonical form
  {"const": [module, name], "path": [i, ...]}   the module constant itself
  {"reg": "r3"}                the object held in a register
  {"list": [spec, ...]} / {"tuple": [spec, ...]}
"""
import importlib
import operator
import sys

from . import canon as C

OPERATORS = {
    "add": operator.add,
    "sub": operator.sub,
    "mul": operator.mul,
    "truediv": operator.truediv,
    "pow": operator.pow,
    "mod": operator.mod,
    "neg": operator.neg,
    "eq": operator.eq,
    "ne": operator.ne,
    "lt": operator.lt,
    "le": operator.le,
    "gt": operator.gt,
    "ge": operator.ge,
    "int": int,
    "repr": repr,
    "hash": hash,
    "bool": bool,
    "iadd": operator.iadd,
    "imul": operator.imul,
    "isub": operator.isub,
}


class Missing(Exception):
    """argument not available (producer failed / register evicted)"""


def fn_key(fn):
    return ".".join(str(x) for x in fn)


def resolve_fn(fn):
    k = fn[0]
    if k == "f":
        m = sys.modules.get(fn[1])
        if m is None:
            m = importlib.import_module(fn[1])
        return getattr(m, fn[2])
    if k == "o":
        return OPERATORS[fn[1]]
    if k == "a":
        name = fn[1]
        return lambda o: getattr(o, name)
    if k == "call":
        name = fn[1]
        return lambda o, *rest: getattr(o, name)(*rest)
    if k == "c":
        cls = C.REG.lookup(fn[1])
        if fn[2] == "":
            return cls
        return getattr(cls, fn[2])
    if k == "lazy":
        how, name = fn[1], fn[2]
        if how == "getattr":
            def _ga():
                import py_ecc
                return getattr(py_ecc, name)
            return _ga
        if how == "import":
            return lambda: importlib.import_module("py_ecc." + name)
        if how == "from":
            def _fr():
                ns = {}
                exec("from py_ecc import %s as x" % name, ns)
                return ns["x"]
            return _fr
        if how == "hasattr":
            def _ha():
                import py_ecc
                return hasattr(py_ecc, name)
            return _ha
    raise KeyError("bad fn ref %r" % (fn,))


def resolve_const(spec):
    mod, name = spec["const"]
    m = sys.modules.get(mod)
    if m is None:
        m = importlib.import_module(mod)
    o = getattr(m, name)
    for p in spec.get("path", ()):
        o = o[p]
    return o


def _at_dead_address(make, dead, tries=400):
    """object identity is a simulator decision: a container the caller builds for
    a call is allocated until it lands on the address of a container that died
    after an earlier call (a memo keyed by id() of an argument then meets a
    recycled address in practice, not once in a blue moon)"""
    if not dead:
        return make()
    keep = []
    for _ in range(tries):
        o = make()
        if id(o) in dead:
            del keep
            return o
        keep.append(o)
    del keep
    return make()


def resolve_arg(spec, regs, dead=None):
    if "lit" in spec:
        return C.rebuild(spec["lit"])
    if "reg" in spec:
        r = spec["reg"]
        if r not in regs:
            raise Missing(r)
        o = regs[r]
        if "idx" in spec:
            if not isinstance(o, (tuple, list)) or len(o) <= spec["idx"]:
                raise Missing("%s[%d]" % (r, spec["idx"]))
            o = o[spec["idx"]]
        return o
    if "const" in spec:
        return resolve_const(spec)
    if "copy" in spec:
        # the caller hands over a copy of an object it holds (copy.copy / deepcopy /
        # a pickle round trip): an equal argument made another way
        import copy
        import pickle
        o = resolve_arg(spec["copy"], regs)
        try:
            if spec.get("how") == "deepcopy":
                return copy.deepcopy(o)
            if spec.get("how") == "pickle":
                return pickle.loads(pickle.dumps(o))
            return copy.copy(o)
        except Exception as e:
            raise Missing("cannot be copied: %s" % type(e).__name__)
    if "list" in spec:
        items = [resolve_arg(s, regs) for s in spec["list"]]
        return _at_dead_address(lambda: list(items), dead)
    if "tuple" in spec:
        items = [resolve_arg(s, regs) for s in spec["tuple"]]
        return _at_dead_address(lambda: tuple(items), dead) if items else ()
    raise KeyError("bad arg spec %r" % (spec,))


def arg_regs(spec, out=None):
    """registers an arg spec reads"""
    if out is None:
        out = []
    if "reg" in spec:
        out.append(spec["reg"])
    if "copy" in spec:
        arg_regs(spec["copy"], out)
    for k in ("list", "tuple"):
        if k in spec:
            for s in spec[k]:
                arg_regs(s, out)
    return out


def op_regs(op):
    out = []
    for a in op.get("args", ()):
        arg_regs(a, out)
    for a in (op.get("kw") or {}).values():
        arg_regs(a, out)
    return out
