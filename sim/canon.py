"""Value-level canonical forms, rebuild-from-canonical, module snapshots.

canon(obj)      -> JSON-able nested structure that never contains an address,
                   a hash-order dependent ordering or an object identity.
rebuild(canon)  -> a *fresh* object equal (canon-equal) to the described one.
snapshot()      -> {"module:name": digest} for every loaded py_ecc module.

This module never calls a public py_ecc function.  rebuild() calls field-class
constructors (that is how a caller makes "equal arguments").  canon() only reads
attributes (never __eq__/__repr__/__hash__ of py_ecc objects).
"""
import hashlib
import json
import re
import sys
import types

MAX_DEPTH = 40


class Unbuildable(Exception):
    pass


# --------------------------------------------------------------------------
# class registry
# --------------------------------------------------------------------------
class Registry:
    def __init__(self):
        self.by_name = {}
        self.by_id = {}

    def add(self, name, cls):
        self.by_name[name] = cls
        self.by_id[id(cls)] = name

    def name_of(self, cls):
        n = self.by_id.get(id(cls))
        if n is not None:
            return n
        # re-scan lazily (modules may have been imported since)
        self.refresh()
        n = self.by_id.get(id(cls))
        if n is not None:
            return n
        if getattr(cls, "__name__", "") == "FQP_corresponding_FQ_class":
            fm = cls.__dict__.get("field_modulus")
            if isinstance(fm, int) and not isinstance(fm, bool):
                return "fqc:%d" % fm
        return "unk:%s.%s" % (
            getattr(cls, "__module__", "?"),
            getattr(cls, "__qualname__", "?"),
        )

    def refresh(self):
        m = sys.modules.get("py_ecc.fields")
        if m is not None:
            for k, v in list(vars(m).items()):
                if isinstance(v, type) and v.__module__ == "py_ecc.fields":
                    if id(v) not in self.by_id:
                        self.add(k, v)
        for short, modname in (
            ("ref", "py_ecc.fields.field_elements"),
            ("opt", "py_ecc.fields.optimized_field_elements"),
        ):
            m = sys.modules.get(modname)
            if m is not None:
                for k in ("FQ", "FQP", "FQ2", "FQ12"):
                    v = m.__dict__.get(k)
                    if isinstance(v, type) and id(v) not in self.by_id:
                        self.add("%s.%s" % (short, k), v)
        m = sys.modules.get("py_ecc.bls.ciphersuites")
        if m is not None:
            for k in (
                "BaseG2Ciphersuite",
                "G2Basic",
                "G2MessageAugmentation",
                "G2ProofOfPossession",
            ):
                v = m.__dict__.get(k)
                if isinstance(v, type) and id(v) not in self.by_id:
                    self.add("suite.%s" % k, v)

    def lookup(self, name):
        c = self.by_name.get(name)
        if c is None:
            self.refresh()
            c = self.by_name.get(name)
        if c is None and not name.startswith(("fqc:", "adhoc.", "unk:")):
            # a caller in a freshly started interpreter imports what it needs
            import importlib
            try:
                importlib.import_module(
                    "py_ecc.bls.ciphersuites" if name.startswith("suite.") else "py_ecc.fields")
            except Exception:
                pass
            self.refresh()
            c = self.by_name.get(name)
        if c is None and name.startswith("fqc:"):
            base = self.lookup("ref.FQ")
            c = type(
                "FQP_corresponding_FQ_class",
                (base,),
                {"field_modulus": int(name[4:])},
            )
            # not registered: every use makes a fresh class, as the library does
            return c
        if c is None:
            raise Unbuildable("unknown class %r" % (name,))
        return c


REG = Registry()


def _field_bases():
    """(FQ-like bases, FQP-like bases) currently loaded."""
    fq, fqp = [], []
    for modname in (
        "py_ecc.fields.field_elements",
        "py_ecc.fields.optimized_field_elements",
    ):
        m = sys.modules.get(modname)
        if m is not None:
            a = m.__dict__.get("FQ")
            b = m.__dict__.get("FQP")
            if isinstance(a, type):
                fq.append(a)
            if isinstance(b, type):
                fqp.append(b)
    return tuple(fq), tuple(fqp)


# the pristine base classes are remembered at first use so that a later
# rebinding of e.g. field_elements.FQ cannot blind the canonicaliser
_BASES = None


def field_bases():
    global _BASES
    if _BASES is None or len(_BASES[0]) < 2:
        _BASES = _field_bases()
    return _BASES


def define_adhoc(spec, dead=None):
    """Create an ad-hoc field subclass from a JSON spec and register it.

    spec = {"name": "F7_2", "base": "opt.FQ2", "attrs": {"field_modulus": 7,
            "FQ2_MODULUS_COEFFS": [1, 0]}}
    """
    if spec.get("bases"):
        bases = tuple(REG.lookup(b) for b in spec["bases"])   # a tower as the library builds it
        base = bases[0]
    else:
        base = REG.lookup(spec["base"])
        bases = (base,)
    attrs = {}
    names = sorted(spec["attrs"])
    for k in names:
        v = spec["attrs"][k]
        if isinstance(v, list) and v and v[0] in ("bytes", "builtin", "str"):
            attrs[k] = rebuild(v)          # e.g. a ciphersuite's DST or hash function
        else:
            attrs[k] = _tuple_at(v, dead) if isinstance(v, list) else v
    for hname, nested in (spec.get("hooks") or {}).items():
        attrs[hname] = _make_hook(base, hname, nested)
    cls = None
    if dead:
        # object identity is a simulator decision too (fault kind F5): try to
        # give the new class the address of a dead one
        keep = []
        for _ in range(40):
            c = type(str(spec["name"]), bases, dict(attrs))
            if id(c) in dead:
                cls = c
                break
            keep.append(c)
        del keep
    if cls is None:
        cls = type(str(spec["name"]), bases, attrs)
    cls.__module__ = "sim.adhoc"
    REG.add("adhoc.%s" % spec["name"], cls)
    return cls


def _make_hook(base, hname, nested):
    """a method a user subclass overrides (or a hash function a user suite plugs in)
    which itself calls into the library before delegating: nested use on the same
    thread while an outer library call is in progress (re-entrancy)"""
    guard = {"active": False}

    def run_nested():
        if guard["active"]:
            return
        guard["active"] = True
        try:
            from . import ops as O
            f = O.resolve_fn(nested["fn"])
            args = [rebuild(c) for c in nested.get("args", ())]
            try:
                f(*args)
            except Exception:
                pass
        finally:
            guard["active"] = False
    if hname == "xmd_hash_function":
        def h(data=b""):
            run_nested()
            return hashlib.sha256(data)
        return staticmethod(h)
    parent = getattr(base, hname)

    def hook(*a, **k):
        run_nested()
        return parent(*a, **k)
    return staticmethod(hook)


def _tuple_at(vals, dead, tries=3000):
    """a fresh tuple(vals); when `dead` (addresses of tuples that belonged to
    dropped classes) is given, keep allocating until one lands on a dead address,
    so that identity reuse does not depend on the allocator's mood"""
    if not dead or not vals:
        return tuple(vals)
    keep = []
    hit = None
    for _ in range(tries):
        t = tuple(vals)
        if id(t) in dead:
            hit = t
            break
        keep.append(t)
    del keep
    return hit if hit is not None else tuple(vals)


def drop_adhoc(name, dead=None):
    """forget an ad-hoc class (the caller lets it die): remove every reference
    the harness itself holds, so that only the library can keep it alive.
    The addresses of the class and of its tuple attributes are added to `dead`."""
    cls = REG.by_name.pop("adhoc.%s" % name, None)
    if cls is None:
        return False
    REG.by_id.pop(id(cls), None)
    for k in [k for k, v in _cache_attr_memo.items() if v[0] is cls]:
        del _cache_attr_memo[k]
    if dead is not None:
        dead.add(id(cls))
        for v in vars(cls).values():
            if type(v) is tuple:
                dead.add(id(v))
    return True


# --------------------------------------------------------------------------
# canon
# --------------------------------------------------------------------------
_ADDR = re.compile(r" at 0x[0-9a-fA-F]+")
_code_cache = {}


def code_digest(code):
    ent = _code_cache.get(id(code))
    if ent is not None and ent[0] is code:
        return ent[1]
    h = hashlib.sha256()
    h.update(code.co_code)
    h.update(repr((code.co_argcount, code.co_kwonlyargcount, code.co_flags & 0xFF,
                   code.co_names, code.co_varnames, code.co_freevars,
                   code.co_cellvars)).encode())
    for c in code.co_consts:
        if isinstance(c, types.CodeType):
            h.update(code_digest(c).encode())
        else:
            h.update(repr(c).encode())
    d = h.hexdigest()[:20]
    _code_cache[id(code)] = (code, d)
    return d


def _canon_func(f, depth, stack, with_state=True):
    code = getattr(f, "__code__", None)
    out = ["func", getattr(f, "__module__", None), getattr(f, "__qualname__", None),
           code_digest(code) if isinstance(code, types.CodeType) else None]
    if not with_state:
        return out
    dflt = getattr(f, "__defaults__", None)
    kw = getattr(f, "__kwdefaults__", None)
    if dflt:
        out.append(_canon(dflt, depth + 1, stack))
    if kw:
        out.append(_canon(kw, depth + 1, stack))
    clo = getattr(f, "__closure__", None)
    if clo:
        cells = []
        for c in clo:
            try:
                cells.append(_canon(c.cell_contents, depth + 1, stack))
            except ValueError:
                cells.append(["emptycell"])
        out.append(["closure", cells])
    fd = getattr(f, "__dict__", None)
    if fd:
        # attributes hung on the function object (f.cache = {...})
        out.append(["attrs", _canon({k: v for k, v in fd.items() if k != "__wrapped__"},
                                    depth + 1, stack)])
    return out


def _typename(t):
    return "%s.%s" % (getattr(t, "__module__", "?"), getattr(t, "__qualname__", "?"))


_cache_attr_memo = {}


def _is_cache_attr(t, k):
    """instance-dict entries that are per-object caches, not part of the value:
    `sgn0` (a cached_property today), any other name that is a cached_property on
    the class, and underscore-prefixed names.  They are left out of the canonical
    form (setting one is not a value-level mutation of an input); cached_property
    entries are checked for coherence instead (I6), and anything that makes a later
    result differ is caught by H3/I8."""
    if k == "sgn0" or (isinstance(k, str) and k.startswith("_")):
        return True
    key = (id(t), k)
    r = _cache_attr_memo.get(key)
    if r is None or r[0] is not t:
        hit = False
        for kls in t.__mro__:
            a = kls.__dict__.get(k)
            if a is not None:
                hit = type(a).__name__ == "cached_property"
                break
        r = (t, hit)
        _cache_attr_memo[key] = r
    return r[1]


def _sortkey(c):
    return json.dumps(c, sort_keys=True, default=str)


def _canon(o, depth, stack):
    if o is None:
        return None
    t = type(o)
    if t is int:
        return o
    if t is bool:
        return ["bool", 1 if o else 0]
    if t is bytes:
        if len(o) > (1 << 20):
            return ["bytes-huge", len(o), hashlib.sha256(o).hexdigest()]
        return ["bytes", o.hex()]
    if t is str:
        return ["str", o]
    if t is float:
        return ["float", repr(o)]
    if t is bytearray:
        return ["bytearray", bytes(o).hex()]
    if t is memoryview:
        return ["memoryview", bytes(o).hex()]
    if depth > MAX_DEPTH:
        return ["deep", _typename(t)]
    oid = id(o)
    if oid in stack:
        return ["cycle", _typename(t)]
    fqb, fqpb = field_bases()
    stack.add(oid)
    try:
        if (t is tuple or t is list) and len(o) > 50000:
            # e.g. a 20-million-fold repetition produced by `int * tuple`: its length
            # and a prefix identify it well enough; not rebuildable (never an input)
            return ["huge-" + t.__name__, len(o),
                    [_canon(x, depth + 1, stack) for x in o[:32]]]
        if t is tuple:
            return ["tuple", [_canon(x, depth + 1, stack) for x in o]]
        if t is list:
            return ["list", [_canon(x, depth + 1, stack) for x in o]]
        if fqb and isinstance(o, fqb):
            d = object.__getattribute__(o, "__dict__")
            out = ["fq", REG.name_of(t), _canon(d.get("n", ["missing"]), depth + 1, stack)]
            extra = {k: v for k, v in d.items() if k != "n" and not _is_cache_attr(t, k)}
            if extra:
                out.append(_canon(extra, depth + 1, stack))
            return out
        if fqpb and isinstance(o, fqpb):
            d = object.__getattribute__(o, "__dict__")
            fqc = d.get("FQP_corresponding_FQ_class")
            out = [
                "fqp",
                REG.name_of(t),
                _canon(d.get("coeffs", ["missing"]), depth + 1, stack),
                _canon(d.get("modulus_coeffs", ["missing"]), depth + 1, stack),
                _canon(d.get("degree", ["missing"]), depth + 1, stack),
                _canon(d["mc_tuples"], depth + 1, stack) if "mc_tuples" in d else None,
                (fqc.__dict__.get("field_modulus") if isinstance(fqc, type) else
                 (None if fqc is None else ["notaclass"])),
            ]
            extra = {
                k: v
                for k, v in d.items()
                if k not in ("coeffs", "modulus_coeffs", "degree", "mc_tuples",
                             "FQP_corresponding_FQ_class") and not _is_cache_attr(t, k)
            }
            if extra:
                out.append(_canon(extra, depth + 1, stack))
            return out
        if isinstance(o, int):  # int subclass (IntEnum, NewType is plain int)
            return ["intsub", _typename(t), int(o)]
        if isinstance(o, bytes):
            return ["bytessub", _typename(t), bytes(o).hex()]
        if isinstance(o, tuple):
            return ["tuplesub", _typename(t), [_canon(x, depth + 1, stack) for x in o]]
        if isinstance(o, list):
            return ["listsub", _typename(t), [_canon(x, depth + 1, stack) for x in o]]
        if isinstance(o, dict):
            items = [[_canon(k, depth + 1, stack), _canon(v, depth + 1, stack)]
                     for k, v in list(o.items())]
            items.sort(key=lambda kv: _sortkey(kv[0]))
            return ["dict" if t is dict else "dictsub:" + _typename(t), items]
        if isinstance(o, (set, frozenset)):
            items = [_canon(x, depth + 1, stack) for x in list(o)]
            items.sort(key=_sortkey)
            return ["set" if t is set else "frozenset", items]
        if isinstance(o, types.ModuleType):
            return ["module", o.__name__]
        if isinstance(o, type):
            return ["class", _typename(o)]
        if isinstance(o, (types.FunctionType,)):
            return _canon_func(o, depth, stack)
        if isinstance(o, (classmethod, staticmethod)):
            return [t.__name__, _canon(o.__func__, depth + 1, stack)]
        if isinstance(o, property):
            return ["property", _canon(o.fget, depth + 1, stack),
                    _canon(o.fset, depth + 1, stack), _canon(o.fdel, depth + 1, stack)]
        if t.__name__ == "cached_property" and hasattr(o, "func"):
            return ["cached_property", _canon(o.func, depth + 1, stack)]
        if isinstance(o, types.MethodType):
            return ["boundmethod", _canon(o.__self__, depth + 1, stack),
                    _canon(o.__func__, depth + 1, stack)]
        if isinstance(o, (types.BuiltinFunctionType, types.BuiltinMethodType)):
            return ["builtin", getattr(o, "__module__", None), o.__name__]
        if hasattr(o, "__wrapped__") and callable(o):  # lru_cache wrapper & friends
            return ["wrapper", _typename(t), _canon(o.__wrapped__, depth + 1, stack)]
        if isinstance(o, BaseException):
            return ["exc", _typename(t)]
        mod = getattr(t, "__module__", "")
        if mod in ("typing", "_abc", "abc", "types") or mod.startswith("typing"):
            return ["typing", _ADDR.sub("", repr(o))[:200]]
        d = getattr(o, "__dict__", None)
        if isinstance(d, dict) and not mod.startswith(("builtins",)):
            return ["obj", _typename(t),
                    _canon({k: v for k, v in d.items()}, depth + 1, stack)]
        return ["opaque", _typename(t)]
    finally:
        stack.discard(oid)


def canon(o):
    return _canon(o, 0, set())


def cjson(c):
    return json.dumps(c, separators=(",", ":"), sort_keys=False)


def digest(c):
    return hashlib.sha256(cjson(c).encode()).hexdigest()[:24]


def canon_exc(e):
    """Canonical outcome of a raised exception: its type only (messages may
    embed values / addresses)."""
    return ["raised", _typename(type(e))]


# --------------------------------------------------------------------------
# rebuild
# --------------------------------------------------------------------------
def rebuild(c):
    if c is None or type(c) is int:
        return c
    if not isinstance(c, list) or not c:
        raise Unbuildable("bad canon %r" % (c,))
    tag = c[0]
    if tag == "bool":
        return bool(c[1])
    if tag == "bytes":
        return bytes.fromhex(c[1])
    if tag == "bytearray":
        return bytearray(bytes.fromhex(c[1]))
    if tag == "memoryview":
        return memoryview(bytes.fromhex(c[1]))
    if tag == "str":
        return c[1]
    if tag == "float":
        return float(c[1])
    if tag == "tuple":
        return tuple(rebuild(x) for x in c[1])
    if tag == "list":
        return [rebuild(x) for x in c[1]]
    if tag == "dict":
        return {rebuild(k): rebuild(v) for k, v in c[1]}
    if tag == "fq":
        return _rebuild_fq(c)
    if tag == "fqp":
        return _rebuild_fqp(c)
    if tag == "builtin":
        m = sys.modules.get(c[1]) or __import__(c[1], fromlist=["x"])
        return getattr(m, c[2])
    if tag == "class":
        try:
            return REG.lookup(c[1])
        except Unbuildable:
            if "." in c[1]:
                mod, _, name = c[1].rpartition(".")
                try:
                    m = sys.modules.get(mod) or __import__(mod, fromlist=["x"])
                    return getattr(m, name)
                except Exception:
                    pass
            raise
    if tag == "hashfn":
        return getattr(hashlib, c[1])
    raise Unbuildable("cannot rebuild %r" % (tag,))


def _rebuild_fq(c):
    if len(c) != 3 or type(c[2]) is not int:
        raise Unbuildable("fq with extras")
    if c[1].startswith("unk:"):
        raise Unbuildable(c[1])
    cls = REG.lookup(c[1])
    o = None
    try:
        o = cls(c[2])
    except Exception:
        o = None
    if o is None or canon(o) != c:
        o = cls.__new__(cls)
        o.__dict__["n"] = c[2]
        if canon(o) != c:
            raise Unbuildable("fq round trip")
    return o


def _rebuild_fqp(c):
    if len(c) != 7:
        raise Unbuildable("fqp with extras")
    if c[1].startswith("unk:"):
        raise Unbuildable(c[1])
    cls = REG.lookup(c[1])
    cc = c[2]
    if not (isinstance(cc, list) and cc and cc[0] == "tuple"):
        raise Unbuildable("fqp coeffs")
    vals = []
    for x in cc[1]:
        if type(x) is int:
            vals.append(x)
        elif isinstance(x, list) and x and x[0] == "fq":
            if isinstance(x[1], str) and x[1].startswith("fqc:") and c[6] is not None:
                vals.append(x[2])  # reference FQP wraps its coefficients itself
            else:
                vals.append(_rebuild_fq(x))
        else:
            raise Unbuildable("fqp coeff %r" % (x,))
    o = None
    try:
        o = cls(vals)
        if canon(o) != c:
            o = None
    except Exception:
        o = None
    if o is None:
        # a generic FQP (the family's FQP base used directly) takes its modulus
        # polynomial per element
        try:
            o = cls(vals, rebuild(c[3]))
        except Exception:
            o = None
    if o is None or canon(o) != c:
        raise Unbuildable("fqp round trip %s" % c[1])
    return o


# --------------------------------------------------------------------------
# sgn0 cache coherence (I6)
# --------------------------------------------------------------------------
def walk_field_objects(o, out, depth=0, seen=None):
    if seen is None:
        seen = set()
    if depth > 12 or id(o) in seen:
        return
    fqb, fqpb = field_bases()
    if isinstance(o, (tuple, list)):
        seen.add(id(o))
        for x in o:
            walk_field_objects(x, out, depth + 1, seen)
    elif isinstance(o, dict):
        seen.add(id(o))
        for x in list(o.values()):
            walk_field_objects(x, out, depth + 1, seen)
    elif (fqb and isinstance(o, fqb)) or (fqpb and isinstance(o, fqpb)):
        seen.add(id(o))
        out.append(o)
        d = o.__dict__
        if "coeffs" in d:
            walk_field_objects(d["coeffs"], out, depth + 1, seen)


def sgn0_incoherent(objs):
    """Return a description of the first field object whose cached sgn0 differs
    from a fresh evaluation of its class's own sgn0 function, else None."""
    for o in objs:
        d = o.__dict__
        for name in list(d):
            if name in ("n", "coeffs", "modulus_coeffs", "degree", "mc_tuples",
                        "FQP_corresponding_FQ_class"):
                continue
            desc = None
            for k in type(o).__mro__:
                if name in k.__dict__:
                    desc = k.__dict__[name]
                    break
            if type(desc).__name__ != "cached_property":
                continue
            f = getattr(desc, "func", None)
            if f is None:
                continue
            try:
                fresh = f(o)
            except Exception:
                continue
            if canon(fresh) != canon(d[name]):
                return "cached %s=%r but recomputed %r on %s" % (
                    name, d[name], fresh, cjson(canon(o))[:120])
    return None


# --------------------------------------------------------------------------
# module snapshot (I1)
# --------------------------------------------------------------------------
_SKIP_CLASS_ATTRS = {
    "__dict__", "__weakref__", "__doc__", "__module__", "_abc_impl",
    "__abstractmethods__", "__annotations__", "__parameters__", "__orig_bases__",
    "__firstlineno__", "__static_attributes__", "__qualname__",
    "__slotnames__",          # cache that copyreg sets on a class when an instance is copied
}
_SKIP_MODULE_ATTRS = {
    "__builtins__", "__cached__", "__loader__", "__spec__", "__file__", "__path__",
    "__doc__", "__package__", "__name__", "__annotations__",
}


def _is_code_like(v):
    """Python-level code objects in a namespace: functions and wrappers around
    them (lru_cache, partial, ...).  Builtins (e.g. a ciphersuite's hashlib
    function) are data: their canonical form is just (module, name)."""
    if isinstance(v, (types.FunctionType, types.MethodType)):
        return True
    if isinstance(v, (types.BuiltinFunctionType, type)):
        return False
    return callable(v) and (hasattr(v, "__wrapped__") or hasattr(v, "func"))


def pyecc_modules():
    return sorted(k for k, v in list(sys.modules.items())
                  if (k == "py_ecc" or k.startswith("py_ecc.")) and v is not None)


def is_empty_slot(c):
    if c is None:
        return True
    if isinstance(c, list) and len(c) == 2 and c[0] in ("list", "tuple", "dict", "set",
                                                         "frozenset") and c[1] == []:
        return True
    if isinstance(c, list) and c[:1] == ["bytearray"] and c[1] == "":
        return True
    return False


def snapshot_canon(data_only=False):
    """{key: canon}; key = 'module:name' or 'module:Class.attr'."""
    out = {}
    for mn in pyecc_modules():
        m = sys.modules[mn]
        for name, v in list(vars(m).items()):
            if name in _SKIP_MODULE_ATTRS:
                continue
            if isinstance(v, type) and getattr(v, "__module__", None) == mn:
                out["%s:%s" % (mn, name)] = ["classdef", [_typename(b) for b in v.__mro__[1:]]]
                for an, av in list(vars(v).items()):
                    if an in _SKIP_CLASS_ATTRS:
                        continue
                    if data_only and isinstance(
                            av, (types.FunctionType, classmethod, staticmethod, property)):
                        continue
                    if data_only and (type(av).__name__ == "cached_property" or
                                      _is_code_like(av)):
                        # code (also behind wrappers such as lru_cache) is not data
                        continue
                    fn = av.__func__ if isinstance(av, (classmethod, staticmethod)) else av
                    if isinstance(fn, types.FunctionType):
                        out["%s:%s.%s()" % (mn, name, an)] = [
                            type(av).__name__, _canon_func(fn, 0, set(), with_state=False)]
                        st = _canon_func(fn, 0, set())[4:]
                        if st:
                            out["%s:%s.%s.__state__" % (mn, name, an)] = st
                        continue
                    out["%s:%s.%s" % (mn, name, an)] = canon(av)
                continue
            if data_only and _is_code_like(v):
                # functions, builtins and wrappers around them (lru_cache, partial):
                # code, not data - byte code legitimately differs under -O/-OO
                continue
            if isinstance(v, types.ModuleType):
                # sub-module attributes are bound by the import system (and only
                # when the sub-module is first loaded): not data
                if not data_only:
                    out["%s:%s" % (mn, name)] = ["module", v.__name__]
                continue
            if isinstance(v, types.FunctionType):
                # code under the function's own key; mutable state a function can
                # carry (default arguments, closure cells: the classic memo-in-a-
                # default-argument) under an internal key - its changes are probes
                # (keys of code end in "()": a name re-bound to other *code* - a function
                #  that specialises itself on first use - is a probe; what the new code
                #  returns is judged by H3.  Re-binding to a non-function removes the key.)
                out["%s:%s()" % (mn, name)] = _canon_func(v, 0, set(), with_state=False)
                st = _canon_func(v, 0, set())[4:]
                if st:
                    out["%s:%s.__state__" % (mn, name)] = st
                continue
            out["%s:%s" % (mn, name)] = canon(v)
    return out


def snapshot(data_only=False):
    sc = snapshot_canon(data_only)
    return {k: digest(v) for k, v in sc.items()}, {k for k, v in sc.items() if is_empty_slot(v)}


_CACHEY = re.compile(r"cache|memo|precomp|lookup|(^|_)lut($|_)", re.I)


def key_is_internal(key):
    """underscore-prefixed module/class attribute, or a name that says it is a
    cache (CACHE, memo, precomputed, lookup, LUT) = internal state, not a constant:
    its changes are probes, and what it does to results is judged by H3."""
    name = key.split(":", 1)[1]
    return any(p.startswith("_") for p in name.split(".")) or bool(_CACHEY.search(name))


def constant_field_objects():
    """every field object reachable from module globals / class attributes."""
    out = []
    seen = set()
    for mn in pyecc_modules():
        m = sys.modules[mn]
        for name, v in list(vars(m).items()):
            if name in _SKIP_MODULE_ATTRS:
                continue
            walk_field_objects(v, out, 0, seen)
    return out


def diff_snapshots(base, cur, base_slots):
    """-> (violations, probes): lists of (key, kind)."""
    viol, probes = [], []
    for k, d in cur.items():
        b = base.get(k)
        if b is None:
            # new name: a cache slot that did not exist at import time
            probes.append((k, "new-name"))
        elif b != d:
            if k in base_slots:
                probes.append((k, "slot-filled"))
            elif key_is_internal(k):
                probes.append((k, "internal-changed"))
            elif k.endswith("()"):
                probes.append((k, "code-rebound"))
            elif k.startswith("py_ecc:") and k.split(":", 1)[1] in (
                    "bls", "bls12_381", "bn128", "optimized_bls12_381",
                    "optimized_bn128", "secp256k1"):
                probes.append((k, "lazy-module"))
            else:
                viol.append((k, "changed"))
    for k in base:
        if k not in cur:
            if key_is_internal(k) or k in base_slots:
                probes.append((k, "removed-internal"))
            else:
                viol.append((k, "removed"))
    return viol, probes


# --------------------------------------------------------------------------
# interpreter-global state (I4)
# --------------------------------------------------------------------------
def module_graph_incoherence():
    """The import system's two views of the package must agree: a loaded
    py_ecc sub-module is the attribute of its (loaded) parent package, and a
    module-valued attribute of a py_ecc package is the object in sys.modules.
    Returns the sorted list of disagreements (normally empty).  A loader that
    'rolls back' sys.modules after a failed import, or caches module objects of
    its own, leaves orphans: the same class then exists twice."""
    bad = []
    mods = {k: v for k, v in list(sys.modules.items())
            if (k == "py_ecc" or k.startswith("py_ecc.")) and isinstance(v, types.ModuleType)}
    for name, m in mods.items():
        if "." in name:
            parent, _, leaf = name.rpartition(".")
            p = mods.get(parent)
            if p is not None:
                a = p.__dict__.get(leaf)
                if isinstance(a, types.ModuleType) and a is not m:
                    bad.append("%s: attribute of %s is another module object" % (name, parent))
        for an, av in list(m.__dict__.items()):
            if isinstance(av, types.ModuleType) and (av.__name__ == "py_ecc" or
                                                     av.__name__.startswith("py_ecc.")):
                cur = sys.modules.get(av.__name__)
                if cur is not av:
                    bad.append("%s.%s: module %s is %s in sys.modules" % (
                        name, an, av.__name__, "absent" if cur is None else "another object"))
    return sorted(set(bad))



def interp_state():
    import gc
    import hashlib as _hl
    import hmac as _hm
    import os
    import random
    import signal
    import threading

    st = {}
    st["recursionlimit"] = sys.getrecursionlimit()
    st["gc_enabled"] = gc.isenabled()
    st["gc_threshold"] = list(gc.get_threshold())
    st["switchinterval"] = repr(sys.getswitchinterval())
    st["int_max_str_digits"] = sys.get_int_max_str_digits()
    st["trace"] = sys.gettrace() is None
    st["profile"] = sys.getprofile() is None
    for s in ("SIGINT", "SIGALRM", "SIGTERM"):
        try:
            h = signal.getsignal(getattr(signal, s))
            st["sig_" + s] = (
                "default_int" if h is signal.default_int_handler else
                "SIG_DFL" if h is signal.SIG_DFL else
                "SIG_IGN" if h is signal.SIG_IGN else
                "none" if h is None else "custom:%s" % getattr(h, "__qualname__", "?"))
        except Exception as e:  # pragma: no cover
            st["sig_" + s] = "err:%s" % type(e).__name__
    try:
        st["cwd"] = os.getcwd()
    except OSError:
        st["cwd"] = None
    st["environ"] = hashlib.sha256(
        repr(sorted(os.environ.items())).encode()).hexdigest()[:16]
    st["sys_path"] = hashlib.sha256(repr(list(sys.path)).encode()).hexdigest()[:16]
    st["hashlib_ids"] = hashlib.sha256(repr(sorted(
        (k, id(v)) for k, v in vars(_hl).items() if not k.startswith("__"))).encode()
    ).hexdigest()[:16]
    st["hmac_ids"] = hashlib.sha256(repr(sorted(
        (k, id(v)) for k, v in vars(_hm).items() if not k.startswith("__"))).encode()
    ).hexdigest()[:16]
    st["random_state"] = hashlib.sha256(repr(random.getstate()).encode()).hexdigest()[:16]
    st["module_graph"] = module_graph_incoherence()
    # the calling thread's decimal context (flags excepted: they record what happened),
    # warnings filters, locale, thread stack size
    try:
        import decimal
        c = decimal.getcontext()
        st["decimal_context"] = [c.prec, c.rounding, c.Emin, c.Emax, c.capitals, c.clamp,
                                 sorted(str(k.__name__) for k, v in c.traps.items() if v)]
    except Exception:  # pragma: no cover
        st["decimal_context"] = None
    try:
        import warnings
        st["warnings_filters"] = hashlib.sha256(repr(
            [(f[0], str(f[1]), getattr(f[2], "__name__", str(f[2])), str(f[3]), f[4])
             for f in warnings.filters]).encode()).hexdigest()[:16]
    except Exception:  # pragma: no cover
        st["warnings_filters"] = None
    try:
        import locale
        st["locale"] = list(locale.getlocale())
    except Exception:
        st["locale"] = None
    # (threading.stack_size() without an argument *resets* the size to 0: read, put back)
    try:
        old = threading.stack_size()
        if old:
            threading.stack_size(old)
        st["thread_stack_size"] = old
    except Exception:  # pragma: no cover
        st["thread_stack_size"] = None
    st["excepthook"] = sys.excepthook is sys.__excepthook__
    st["threading_excepthook"] = getattr(threading.excepthook, "__name__", "?")
    st["builtins"] = hashlib.sha256(repr(sorted(
        (k, id(v)) for k, v in vars(__import__("builtins")).items()
        if k in ("pow", "int", "len", "sum", "hash", "isinstance", "bytes", "tuple",
                 "list", "type", "hasattr", "getattr", "divmod", "min", "max", "abs",
                 "zip", "enumerate", "range", "reversed", "all", "any", "ord", "chr",
                 "bool", "bytearray", "set", "dict", "super", "print"))).encode()
    ).hexdigest()[:16]
    return st
