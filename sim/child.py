"""Code that runs in a forked child of the pristine server (or in a freshly
started interpreter for "cold" runs): one simulated run, or one golden
evaluation.  Executes a fully explicit run spec; draws nothing from a PRNG and
reads no clock.
"""
import _thread
import gc
import os
import sys
import threading
import types

from . import canon as C
from . import lockseam
from . import ops as O

INF = 1 << 62
TOOL = 4
# the recursion limit is an ambient input of the *simulated caller* (lowered by a knob
# or by an armed stack-exhaustion fault); the harness's own code - snapshots, canonical
# forms, records - always runs under this generous one
HARNESS_RLIMIT = 100000
OP_BUDGET = 30_000_000

E = sys.monitoring.events


class SimInterrupt(BaseException):
    """asynchronous exception injected by the simulator"""


class BudgetExceeded(BaseException):
    """an operation exhausted its step budget"""


FAULT_EXC = {
    "SimInterrupt": SimInterrupt,
    "KeyboardInterrupt": KeyboardInterrupt,
    "MemoryError": MemoryError,
    "RecursionError": RecursionError,
    "TimeoutError": TimeoutError,
    "ValueError": ValueError,
    "AssertionError": AssertionError,
    "SystemExit": SystemExit,
}

PYECC_DIR = None


def pyecc_dir():
    global PYECC_DIR
    if PYECC_DIR is None:
        import py_ecc
        PYECC_DIR = os.path.dirname(os.path.abspath(py_ecc.__file__)) + os.sep
    return PYECC_DIR


def _code_objects_of(fn, out, seen):
    code = getattr(fn, "__code__", None)
    if not isinstance(code, types.CodeType):
        return
    stack = [code]
    while stack:
        c = stack.pop()
        if id(c) in seen:
            continue
        seen.add(id(c))
        out.append(c)
        for k in c.co_consts:
            if isinstance(k, types.CodeType):
                stack.append(k)


def all_pyecc_code():
    out, seen = [], set()
    d = pyecc_dir()
    for mn in C.pyecc_modules():
        m = sys.modules[mn]
        for v in list(vars(m).values()):
            if isinstance(v, types.FunctionType):
                if v.__code__.co_filename.startswith(d):
                    _code_objects_of(v, out, seen)
            elif isinstance(v, type) and getattr(v, "__module__", "").startswith("py_ecc"):
                for av in list(vars(v).values()):
                    f = av
                    if isinstance(av, (classmethod, staticmethod)):
                        f = av.__func__
                    elif isinstance(av, property):
                        for g in (av.fget, av.fset, av.fdel):
                            if g is not None:
                                _code_objects_of(g, out, seen)
                        continue
                    elif type(av).__name__ == "cached_property":
                        f = getattr(av, "func", None)
                    elif hasattr(av, "__wrapped__"):
                        f = av.__wrapped__
                    if isinstance(f, types.FunctionType) and \
                            f.__code__.co_filename.startswith(d):
                        _code_objects_of(f, out, seen)
            elif hasattr(v, "__wrapped__") and isinstance(
                    getattr(v, "__wrapped__", None), types.FunctionType):
                if v.__wrapped__.__code__.co_filename.startswith(d):
                    _code_objects_of(v.__wrapped__, out, seen)
    return out


GOLDEN_BASE = None      # (digests, slots) of the pristine data snapshot, set by the server

# the line callback reads this module-global pair: [events so far, next trigger]
CNT = [0, INF]
_SLOW = None


def _on_line(code, line):
    c = CNT
    n = c[0] + 1
    c[0] = n
    if n >= c[1]:
        _SLOW(code, line)


def _on_line_global(code, line):
    # used when monitoring is global (import-time scenarios): filter by file
    if not code.co_filename.startswith(PYECC_DIR):
        return sys.monitoring.DISABLE
    c = CNT
    n = c[0] + 1
    c[0] = n
    if n >= c[1]:
        _SLOW(code, line)


_PREINSTALLED = None     # module names instrumented by preinstall_monitor()


def preinstall_monitor():
    """Called once by the pristine server: switch on LINE events for every py_ecc
    code object (no callback is registered, the server executes no py_ecc code).
    Forked children inherit the instrumentation and only have to register their
    callback, which saves a few milliseconds in every one of the tens of
    thousands of forks of a check."""
    global _PREINSTALLED
    pyecc_dir()
    mon = sys.monitoring
    if mon.get_tool(TOOL) is None:
        mon.use_tool_id(TOOL, "py_ecc-sim")
    for c in all_pyecc_code():
        mon.set_local_events(TOOL, c, E.LINE)
    _PREINSTALLED = tuple(C.pyecc_modules())


def install_monitor(slow, global_mode=False):
    global _SLOW
    _SLOW = slow
    pyecc_dir()
    mon = sys.monitoring
    if mon.get_tool(TOOL) is None:
        mon.use_tool_id(TOOL, "py_ecc-sim")
    if global_mode:
        mon.register_callback(TOOL, E.LINE, _on_line_global)
        mon.set_events(TOOL, E.LINE)
    else:
        mon.register_callback(TOOL, E.LINE, _on_line)
        if _PREINSTALLED is None or _PREINSTALLED != tuple(C.pyecc_modules()):
            for c in all_pyecc_code():
                mon.set_local_events(TOOL, c, E.LINE)


def refresh_local_monitor():
    """instrument code objects of modules that were imported after install"""
    for c in all_pyecc_code():
        sys.monitoring.set_local_events(TOOL, c, E.LINE)


def outcome_of_exception(e):
    return ["raised", C._typename(type(e))]


def invoke(op, args, kwargs):
    f = O.resolve_fn(op["fn"])
    return f(*args, **kwargs)


def _depth():
    f = sys._getframe()
    n = 0
    while f is not None:
        n += 1
        f = f.f_back
    return n


# --------------------------------------------------------------------------
# golden evaluation
# --------------------------------------------------------------------------
def run_golden(req):
    """Evaluate one call alone.  req = {"fn", "args": [canon], "kw": {k: canon},
    "adhoc": [...]} -> {"outcome", "count", "i2"} or {"unbuildable": reason}."""
    global CNT
    for a in req.get("adhoc", ()):
        C.define_adhoc(a)
    if req["fn"][0] == "sim":
        return _harness_fn(req)

    def slow(code, line):
        CNT[1] = INF
        raise BudgetExceeded()

    try:
        fobj = O.resolve_fn(req["fn"])
    except Exception as e:
        return {"unbuildable": "no-such-callable:%s" % type(e).__name__}
    try:
        args = [C.rebuild(c) for c in req["args"]]
        kwargs = {k: C.rebuild(c) for k, c in (req.get("kw") or {}).items()}
        pre = [C.canon(a) for a in args] + [C.canon(kwargs[k]) for k in sorted(kwargs)]
        want = list(req["args"]) + [req["kw"][k] for k in sorted(req.get("kw") or {})]
        if pre != want:
            return {"unbuildable": "round-trip"}
    except C.Unbuildable as e:
        return {"unbuildable": str(e)[:200]}
    except RecursionError:
        return {"unbuildable": "RecursionError in rebuild"}
    gc.disable()
    install_monitor(slow, global_mode=bool(req.get("global_monitor")))
    CNT = [0, OP_BUDGET]
    try:
        try:
            res = fobj(*args, **kwargs)
            outcome = ["ret", C.canon(res)]
        finally:
            CNT[1] = INF
    except BudgetExceeded:
        outcome = ["budget"]
    except BaseException as e:  # noqa: B036 - every exception is an outcome
        outcome = outcome_of_exception(e)
    count = CNT[0]
    post = [C.canon(a) for a in args] + [C.canon(kwargs[k]) for k in sorted(kwargs)]
    out = {"outcome": outcome, "count": count, "i2": post == pre}
    if req.get("want_touched") and GOLDEN_BASE is not None:
        # which pieces of hidden state does this call, made alone, touch?  (asked for
        # only once a run has seen hidden state change: it aims the second phase)
        try:
            cur, _ = C.snapshot(data_only=True)
            _, probes = C.diff_snapshots(GOLDEN_BASE[0], cur, GOLDEN_BASE[1])
            out["touched"] = sorted({"%s:%s" % (kind, k) for k, kind in probes})[:12]
        except Exception:
            out["touched"] = []
    return out


def _harness_fn(req):
    """helper evaluations that need py_ecc arithmetic but are not operations"""
    if req["fn"][1] == "proj_eq":
        try:
            a, b = (C.rebuild(c) for c in req["args"])
            (x1, y1, z1), (x2, y2, z2) = a, b
            same = bool(x1 * z2 == x2 * z1 and y1 * z2 == y2 * z1 and
                        ((z1 == z1.zero()) == (z2 == z2.zero())))
        except BaseException:  # noqa: B036
            same = False
        return {"outcome": ["ret", C.canon(same)], "count": 0, "i2": True}
    raise KeyError(req["fn"])


# --------------------------------------------------------------------------
# simulated run
# --------------------------------------------------------------------------
class Task:
    __slots__ = ("idx", "ops", "gate", "cnt", "trig", "tp", "done", "cur_op",
                 "rlimit", "faulted", "thread", "injected", "blocked_on", "deadlocked",
                 "last_result", "last_unstored")

    def __init__(self, idx, ops):
        self.idx = idx
        self.ops = ops
        self.gate = _thread.allocate_lock()
        self.gate.acquire()
        self.cnt = [0, INF]
        self.trig = ()
        self.tp = 0
        self.done = False
        self.cur_op = None
        self.rlimit = None
        self.faulted = False
        self.injected = None
        self.thread = None
        self.blocked_on = None
        self.deadlocked = False
        self.last_result = None
        self.last_unstored = False


class Sim:
    def __init__(self, spec, base):
        """base = {"full": (digests, slots), "data": (digests, slots)} taken in the
        pristine server."""
        self.spec = spec
        self.base = base
        self.records = []
        self.violations = []
        self.probes = {}
        self.regs = {}
        self.reg_digest = {}
        self.gseq = 0
        self.tasks = []
        self.cur = None
        self.main_gate = _thread.allocate_lock()
        self.main_gate.acquire()
        self.harness_error = None
        self.stats = {"switches": 0, "faults_fired": {}, "events": 0, "ops": 0,
                      "i1_checks": 0, "i1_midop_checks": 0, "evictions": 0,
                      "gc_collects": 0, "stack_faults_fired": 0, "ops_suspended": 0,
                      "lock_blocks": 0}
        self.base_rlimit = None
        self.interp0 = None
        self.dead_ids = set()
        # index explicit schedule
        self.trig_by_op = {}
        sched = spec.get("schedule") or {}
        for s in sched.get("switches", ()):
            self.trig_by_op.setdefault((s["task"], s["op"]), []).append(
                (int(s["event"]), 0, "switch", s))
        for f in spec.get("faults", ()):
            if f["kind"] == "async_exc":
                self.trig_by_op.setdefault((f["task"], f["op"]), []).append(
                    (int(f["event"]), 1, "fault", f))
        for v in self.trig_by_op.values():
            v.sort(key=lambda t: (t[0], t[1]))
        self.stack_faults = {(f["task"], f["op"]): f for f in spec.get("faults", ())
                             if f["kind"] == "stack"}
        self.boundary = {(s["task"], s["op"]): s for s in sched.get("at_op_boundaries", ())}
        self.suspended_mid_op = 0

    # -- recording ---------------------------------------------------------
    def rec(self, *r):
        self.records.append(list(r))

    def violation(self, inv, task, opi, detail, fn=None):
        self.violations.append({"invariant": inv, "task": task, "op": opi,
                                "function": fn, "detail": detail,
                                "gseq": self.gseq + (CNT[0] if CNT[1] != INF else 0)})

    # -- invariants --------------------------------------------------------
    def check_I1(self, where, task, opi, fn, full=False):
        mode = "full" if full else "data"
        bd, bslots = self.base[mode]
        cur, _ = C.snapshot(data_only=not full)
        self.stats["i1_checks"] += 1
        viol, probes = C.diff_snapshots(bd, cur, bslots)
        for k, kind in probes:
            self.probes["%s:%s" % (kind, k)] = self.probes.get("%s:%s" % (kind, k), 0) + 1
        for k, kind in viol:
            self.violation("I1", task, opi, {"key": k, "kind": kind, "where": where}, fn)
        bad = C.sgn0_incoherent(C.constant_field_objects())
        if bad:
            self.violation("I6", task, opi, {"what": bad, "where": where}, fn)
        return not viol

    def check_I4(self, where, task, opi, fn):
        cur = C.interp_state()
        # (the recursion limit is checked at the moment a call returns, in exec_op: in
        #  between the harness runs under its own limit)
        cur["recursionlimit"] = self.interp0.get("recursionlimit")
        for k, v in cur.items():
            if self.interp0.get(k) != v:
                self.violation("I4", task, opi,
                               {"key": k, "was": self.interp0.get(k), "now": v,
                                "where": where}, fn)
                self.interp0[k] = v  # report each change once

    def check_I8(self, where, task, opi, fn):
        for r, o in list(self.regs.items()):
            d = C.digest(C.canon(o))
            if d != self.reg_digest[r]:
                self.violation("I8", task, opi, {"reg": r, "where": where,
                                                 "was": self.reg_digest[r], "now": d}, fn)
                self.reg_digest[r] = d

    # -- scheduling --------------------------------------------------------
    def pick(self, to, me):
        n = len(self.tasks)
        for d in range(n):
            t = self.tasks[(to + d) % n]
            if not t.done and t is not me and t.blocked_on is None:
                return t
        return None

    # -- cooperative locks (lockseam) ----------------------------------------
    def lock_block(self, me, lock):
        """called by a task whose acquire of a py_ecc-created lock is contended"""
        self.stats["lock_blocks"] += 1
        me.blocked_on = lock
        target = self.pick(me.idx + 1, me)
        self.rec("lock-block", me.idx, me.cur_op)
        if target is None:
            me.blocked_on = None
            me.faulted = True
            self.rec("deadlock", me.idx, me.cur_op)
            self.probes["deadlock"] = self.probes.get("deadlock", 0) + 1
            raise lockseam.SimDeadlock("every other caller is finished or blocked")
        mid = me.cur_op is not None
        if mid:
            self.suspended_mid_op += 1
        saved = me.cnt[1]
        me.cnt[1] = INF
        self.hand_over(me, target, True)
        me.cnt[1] = saved
        if mid:
            self.suspended_mid_op -= 1
        if me.deadlocked:
            me.deadlocked = False
            me.blocked_on = None
            me.faulted = True
            raise lockseam.SimDeadlock("lock owner finished without releasing")

    def lock_released(self, lock):
        for t in self.tasks:
            if t.blocked_on is lock:
                t.blocked_on = None

    def apply_rlimit(self, me):
        """the recursion limit is interpreter-wide: the task that holds the baton
        installs its own (a lowered one while a stack-exhaustion fault is armed).
        Always done by the resumed task itself, at its own depth - the task that
        hands over may be hundreds of frames deep, where lowering the limit raises."""
        try:
            if me.cur_op is not None:
                sys.setrecursionlimit(me.rlimit or self.base_rlimit)
            else:
                sys.setrecursionlimit(HARNESS_RLIMIT)   # between operations: harness code
        except RecursionError:
            pass

    def hand_over(self, me, target, park):
        global CNT
        self.cur = target
        CNT = target.cnt
        target.gate.release()
        if park:
            me.gate.acquire()
            self.apply_rlimit(me)

    def do_switch(self, me, to, where, check=False):
        target = self.pick(to, me)
        if target is None:
            return False
        self.stats["switches"] += 1
        mid = me.cur_op is not None and where != "boundary"
        self.rec("switch", me.idx, target.idx, me.cur_op, me.cnt[0] if mid else -1,
                 where if isinstance(where, str) else list(where))
        if check:
            self.stats["i1_midop_checks"] += 1
            fn = O.fn_key(me.ops[me.cur_op]["fn"]) if me.cur_op is not None else None
            sys.setrecursionlimit(HARNESS_RLIMIT)
            try:
                self.check_I1("suspended", me.idx, me.cur_op, fn)
            finally:
                self.apply_rlimit(me)
        if mid:
            self.suspended_mid_op += 1
            self.stats["ops_suspended"] += 1
        self.hand_over(me, target, True)
        if mid:
            self.suspended_mid_op -= 1
        return True

    def slow(self, code, line):
        me = self.cur
        c = me.cnt[0]
        trig = me.trig
        while me.tp < len(trig) and trig[me.tp][0] <= c:
            _, _, kind, payload = trig[me.tp]
            me.tp += 1
            nxt = trig[me.tp][0] if me.tp < len(trig) else OP_BUDGET
            me.cnt[1] = nxt
            if kind == "switch":
                self.do_switch(me, payload["to"],
                               (os.path.basename(code.co_filename), line),
                               check=bool(payload.get("check")))
            elif kind == "fault":
                name = payload.get("exc", "SimInterrupt")
                self.stats["faults_fired"][name] = self.stats["faults_fired"].get(name, 0) + 1
                me.faulted = True
                self.rec("fault", me.idx, me.cur_op, c, name,
                         [os.path.basename(code.co_filename), line])
                exc = FAULT_EXC[name]("injected by simulator")
                me.injected = exc
                raise exc
        if c >= OP_BUDGET:
            me.cnt[1] = INF
            raise BudgetExceeded()

    # -- operations --------------------------------------------------------
    def exec_pseudo(self, me, k, op):
        kind = op["pseudo"]
        if kind == "evict":
            for r in op["regs"]:
                self.regs.pop(r, None)
                self.reg_digest.pop(r, None)
                self.stats["evictions"] += 1
            self.rec("evict", me.idx, k, list(op["regs"]))
        elif kind == "defclass":
            byname = {a["name"]: a for a in self.spec.get("adhoc_classes", ())}
            for nm in op["names"]:
                cls = C.define_adhoc(byname[nm], self.dead_ids)
                if id(cls) in self.dead_ids or any(
                        type(v) is tuple and id(v) in self.dead_ids
                        for v in vars(cls).values()):
                    self.stats["identity_reuse"] = self.stats.get("identity_reuse", 0) + 1
            self.rec("defclass", me.idx, k, list(op["names"]))
        elif kind == "dropclass":
            for r in op.get("regs", ()):
                self.regs.pop(r, None)
                self.reg_digest.pop(r, None)
                self.stats["evictions"] += 1
            me.injected = None
            for nm in reversed(op["names"]):
                C.drop_adhoc(nm, self.dead_ids)
            self.stats["classes_dropped"] = self.stats.get("classes_dropped", 0) + \
                len(op["names"])
            gc.collect()
            self.stats["gc_collects"] += 1
            self.rec("dropclass", me.idx, k, list(op["names"]))
            self.rec("gc", me.idx, k)
        elif kind == "mk":
            # a mutable object the caller owns (a bytearray buffer, a list of keys)
            try:
                self.regs[op["out"]] = C.rebuild(op["value"])
                self.reg_digest[op["out"]] = C.digest(C.canon(self.regs[op["out"]]))
            except C.Unbuildable:
                pass
            self.rec("mk", me.idx, k, op["out"])
        elif kind == "mutate_reg":
            # ... and changes itself between two library calls (its own object!)
            o = self.regs.get(op["reg"])
            done = False
            try:
                if isinstance(o, bytearray) and op["how"] == "set":
                    o[:] = bytes.fromhex(op["payload"])
                    done = True
                elif isinstance(o, list) and op["how"] == "append":
                    o.append(C.rebuild(op["payload"]))
                    done = True
                elif isinstance(o, list) and op["how"] == "pop" and o:
                    o.pop()
                    done = True
                elif isinstance(o, list) and op["how"] == "reverse":
                    o.reverse()
                    done = True
            except C.Unbuildable:
                pass
            if done:
                self.reg_digest[op["reg"]] = C.digest(C.canon(o))
            self.rec("mutate_reg", me.idx, k, op["reg"], done)
        elif kind == "mutate_last":
            # the caller modifies a container it was handed as a result (legitimate for
            # a list / bytearray / dict / set you received); only results that are not
            # kept in a register are touched
            o = me.last_result
            done = False
            if me.last_unstored and type(o) in (list, bytearray, dict, set):
                how = op.get("how", "pop")
                try:
                    if not len(o):
                        # an empty container: the caller puts something into it
                        if type(o) is list:
                            o.append(None)
                        elif type(o) is bytearray:
                            o.append(0)
                        elif type(o) is dict:
                            o["caller"] = 0
                        else:
                            o.add(0)
                    elif how == "clear" or type(o) in (dict, set):
                        o.clear()
                    elif how == "reverse" and type(o) is list and len(o) > 1 and o[0] is not o[-1]:
                        o.reverse()
                    else:
                        o.pop()
                    done = True
                except Exception:
                    done = False
            me.last_result = None
            self.stats["results_mutated_by_caller"] = \
                self.stats.get("results_mutated_by_caller", 0) + (1 if done else 0)
            self.rec("mutate_last", me.idx, k, done)
        elif kind == "gc":
            n = gc.collect()
            self.stats["gc_collects"] += 1
            self.rec("gc", me.idx, k)
        elif kind == "check":
            self.check_I1("explicit", me.idx, k, None, full=bool(op.get("full")))
            self.check_I8("explicit", me.idx, k, None)
            if self.suspended_mid_op == 0:
                self.check_I4("explicit", me.idx, k, None)

    def exec_op(self, me, k, op):
        global CNT
        fnk = O.fn_key(op["fn"])
        if op.get("skip"):
            self.rec("skipped", me.idx, k, fnk, op["skip"])
            return
        try:
            fobj = O.resolve_fn(op["fn"])
        except Exception as e:  # the callable does not exist in this tree / class dropped
            self.rec("skipped", me.idx, k, fnk, "no-such-callable:%s" % type(e).__name__)
            return
        try:
            args = [O.resolve_arg(a, self.regs, self.dead_ids) for a in op.get("args", ())]
            kwargs = {kk: O.resolve_arg(a, self.regs) for kk, a in (op.get("kw") or {}).items()}
        except O.Missing as e:
            self.rec("skipped", me.idx, k, fnk, "missing:%s" % e)
            return
        except C.Unbuildable as e:
            self.rec("skipped", me.idx, k, fnk, "unbuildable:%s" % str(e)[:80])
            return
        flat = args + [kwargs[kk] for kk in sorted(kwargs)]
        pre = [C.digest(C.canon(a)) for a in flat]
        self.stats["ops"] += 1
        me.cur_op = k
        me.faulted = False
        me.injected = None
        me.trig = self.trig_by_op.get((me.idx, k), ())
        me.tp = 0
        sf = self.stack_faults.get((me.idx, k))
        self.rec("invoke", me.idx, k, fnk, pre)
        if sf is not None:
            me.rlimit = _depth() + int(sf["d"])
        me.cnt[0] = 0
        me.cnt[1] = me.trig[0][0] if me.trig else OP_BUDGET
        res = None
        try:
            try:
                sys.setrecursionlimit(me.rlimit or self.base_rlimit)   # the caller's limit
                res = fobj(*args, **kwargs)
                sys.setrecursionlimit(HARNESS_RLIMIT)
                outcome = ["ret", C.canon(res)]
            finally:
                me.cnt[1] = INF
                lim_after = sys.getrecursionlimit()
                lim_want = me.rlimit or self.base_rlimit
                me.rlimit = None
                sys.setrecursionlimit(HARNESS_RLIMIT)
        except BudgetExceeded:
            outcome = ["budget"]
        except BaseException as e:  # noqa: B036
            outcome = outcome_of_exception(e)
            if sf is not None and isinstance(e, RecursionError):
                me.faulted = True
                self.stats["stack_faults_fired"] += 1
                self.rec("fault", me.idx, k, me.cnt[0], "stack", [None, None])
            e = None
        n = me.cnt[0]
        self.gseq += n
        self.stats["events"] += n
        me.cur_op = None
        if lim_after not in (lim_want, HARNESS_RLIMIT) and self.suspended_mid_op == 0:
            # I4: the call left another recursion limit behind than the caller had set
            self.violation("I4", me.idx, k, {"key": "recursionlimit", "was": lim_want,
                                             "now": lim_after, "where": "on-return"}, fnk)
        # I2: inputs intact (also after a fault)
        post = [C.digest(C.canon(a)) for a in flat]
        if post != pre:
            bad = [i for i in range(len(pre)) if pre[i] != post[i]]
            self.violation("I2", me.idx, k, {"args_changed": bad}, fnk)
        # I6 on what the caller holds
        fo = []
        C.walk_field_objects(flat, fo)
        if outcome[0] == "ret":
            C.walk_field_objects(res, fo)
        bad = C.sgn0_incoherent(fo)
        if bad:
            self.violation("I6", me.idx, k, {"what": bad}, fnk)
        out = op.get("out")
        me.last_result = res if outcome[0] == "ret" else None
        me.last_unstored = not out
        if out:
            if outcome[0] == "ret" and not me.faulted:
                self.regs[out] = res
                self.reg_digest[out] = C.digest(outcome[1])
            elif "fallback" in op:
                try:
                    self.regs[out] = C.rebuild(op["fallback"])
                    self.reg_digest[out] = C.digest(C.canon(self.regs[out]))
                except C.Unbuildable:
                    pass
        # containers the caller built for this call die when this frame returns
        for a, sp in zip(args, op.get("args", ())):
            if ("tuple" in sp or "list" in sp) and len(self.dead_ids) < 4096:
                if id(a) in self.dead_ids:
                    self.stats["identity_reuse"] = self.stats.get("identity_reuse", 0) + 1
                self.dead_ids.add(id(a))
        od = C.digest(outcome)
        oc = outcome if len(C.cjson(outcome)) < 6000 else [outcome[0], ["big"]]
        self.rec("return", me.idx, k, fnk, od, n, bool(me.faulted), oc)
        # I1 sampled; always after a fault
        if me.faulted or n >= 1500 or op.get("check") or (self.stats["ops"] % 8 == 0):
            self.check_I1("after-op", me.idx, k, fnk)
        if self.suspended_mid_op == 0 and (me.faulted or self.stats["ops"] % 4 == 0):
            self.check_I4("after-op", me.idx, k, fnk)
        if self.stats["ops"] % 16 == 0:
            self.check_I8("after-op", me.idx, k, fnk)

    def task_main(self, me):
        me.gate.acquire()
        self.apply_rlimit(me)
        try:
            for k, op in enumerate(me.ops):
                b = self.boundary.get((me.idx, k))
                if b is not None:
                    self.do_switch(me, b["to"], "boundary")
                if "pseudo" in op:
                    self.exec_pseudo(me, k, op)
                else:
                    self.exec_op(me, k, op)
        except BaseException as e:  # harness failure, not a verdict
            me.cnt[1] = INF
            me.done = True
            try:
                sys.setrecursionlimit(HARNESS_RLIMIT)
                import traceback
                self.harness_error = "task %d: %s" % (me.idx, traceback.format_exc()[-1500:])
            except BaseException:  # noqa: B036
                self.harness_error = "task %d: %r" % (me.idx, e)
            finally:
                self.main_gate.release()     # whatever happens: the run must end
            return
        me.done = True
        nxt = self.pick(me.idx + 1, me)
        self.rec("done", me.idx)
        if nxt is None:
            stuck = [t for t in self.tasks if not t.done and t.blocked_on is not None]
            if stuck:
                stuck[0].deadlocked = True
                self.rec("deadlock", stuck[0].idx, stuck[0].cur_op)
                self.probes["deadlock"] = self.probes.get("deadlock", 0) + 1
                self.hand_over(me, stuck[0], False)
            else:
                self.main_gate.release()
        else:
            self.hand_over(me, nxt, False)

    def run(self):
        global CNT
        spec = self.spec
        for a in spec.get("adhoc_classes", ()):
            if not a.get("dynamic"):
                C.define_adhoc(a)
        knobs = spec.get("knobs") or {}
        if knobs.get("gc") == "enabled":
            gc.enable()
        else:
            gc.disable()
        if knobs.get("recursion_limit_after_import"):
            sys.setrecursionlimit(int(knobs["recursion_limit_after_import"]))
        for n, v in (knobs.get("env") or {}).items():
            os.environ[n] = v
        if knobs.get("cwd"):
            try:
                os.chdir(knobs["cwd"])
            except OSError:
                pass
        self.base_rlimit = sys.getrecursionlimit()
        lockseam.SIM = self
        if spec.get("monitor") != "off":
            # ("off": long single-caller soak histories run unmonitored - no
            # pre-emption or fault is planned in them, and LINE events triple the cost)
            install_monitor(self.slow, global_mode=(spec.get("monitor") == "global"))
        threading.stack_size(64 * 1024 * 1024)
        self.interp0 = C.interp_state()
        prelude = spec.get("prelude") or []
        phases = []
        if prelude:
            phases.append([prelude])
        phases.append(spec.get("tasks") or [])
        base_idx = 0
        for pi, plist in enumerate(phases):
            if not plist:
                continue
            if pi == 0 and prelude:
                # the prelude runs alone as task index -1
                self.tasks = [Task(-1, prelude)]
            else:
                self.tasks = [Task(i, ops) for i, ops in enumerate(plist)]
            for t in self.tasks:
                t.thread = threading.Thread(target=self.task_main, args=(t,), daemon=True)
                t.thread.start()
            first = 0
            if not (pi == 0 and prelude):
                first = int((spec.get("schedule") or {}).get("first", 0)) % len(self.tasks)
            t0 = self.tasks[first]
            self.cur = t0
            CNT = t0.cnt
            t0.gate.release()
            self.main_gate.acquire()
            if self.harness_error:
                break
        CNT = [0, INF]
        sys.setrecursionlimit(HARNESS_RLIMIT)
        if not self.harness_error:
            self.check_I1("end", None, None, None, full=True)
            self.check_I4("end", None, None, None)
            self.check_I8("end", None, None, None)
        return {
            "records": self.records,
            "violations": self.violations,
            "probes": self.probes,
            "stats": self.stats,
            "harness_error": self.harness_error,
        }


def run_sim(spec, base):
    return Sim(spec, base).run()
