"""Minimisation of a failing run spec (delta debugging over tasks, operations,
switches, faults, pseudo-ops and knobs) while the same violation class persists.
Indices stay stable while shrinking (dropped ops become no-op placeholders);
the result is compacted once at the end."""
import copy
import time

NOP = {"pseudo": "nop"}


def _fails(server, spec, cls):
    from .runner import execute, violation_class
    out = execute(server, spec, want_cov=False)
    if "harness_error" in out:
        return False
    return any(violation_class(v) == cls for v in out.get("violations", ()))


def _ddmin(items, test, deadline):
    """generic ddmin over a list; test(sublist) -> still fails"""
    n = 2
    cur = list(items)
    while len(cur) >= 1 and time.monotonic() < deadline:
        chunk = max(1, len(cur) // n)
        reduced = False
        i = 0
        while i < len(cur) and time.monotonic() < deadline:
            cand = cur[:i] + cur[i + chunk:]
            if test(cand):
                cur = cand
                n = max(n - 1, 2)
                reduced = True
            else:
                i += chunk
        if not reduced:
            if chunk == 1:
                break
            n = min(len(cur), n * 2)
    return cur


def compact(spec):
    """remove nop placeholders and re-index schedule and faults"""
    spec = copy.deepcopy(spec)
    remap = {}

    def squeeze(t, ops):
        out = []
        for k, op in enumerate(ops):
            if op.get("pseudo") == "nop":
                continue
            remap[(t, k)] = len(out)
            out.append(op)
        return out

    spec["prelude"] = squeeze(-1, spec.get("prelude") or [])
    spec["tasks"] = [squeeze(t, ops) for t, ops in enumerate(spec.get("tasks") or [])]
    sched = spec.get("schedule") or {}
    for key in ("switches", "at_op_boundaries"):
        new = []
        for s in sched.get(key, ()):
            k = remap.get((s["task"], s["op"]))
            if k is None:
                continue
            s = dict(s)
            s["op"] = k
            new.append(s)
        sched[key] = new
    nf = []
    for f in spec.get("faults", ()):
        k = remap.get((f["task"], f["op"]))
        if k is None:
            continue
        f = dict(f)
        f["op"] = k
        nf.append(f)
    spec["faults"] = nf
    # drop tasks that became empty and renumber the others
    tmap = {}
    newtasks = []
    for t, ops in enumerate(spec["tasks"]):
        if ops:
            tmap[t] = len(newtasks)
            newtasks.append(ops)
    tmap[-1] = -1
    if len(newtasks) != len(spec["tasks"]) and newtasks:
        spec["tasks"] = newtasks
        for key in ("switches", "at_op_boundaries"):
            new = []
            for s in sched.get(key, ()):
                if s["task"] in tmap:
                    s = dict(s)
                    s["task"] = tmap[s["task"]]
                    live = [u for u in range(len(newtasks)) if u != s["task"]]
                    s["to"] = tmap.get(s["to"], live[0] if live else 0)
                    new.append(s)
            sched[key] = new
        spec["faults"] = [dict(f, task=tmap[f["task"]]) for f in spec["faults"]
                          if f["task"] in tmap]
        sched["first"] = tmap.get(sched.get("first", 0), 0)
    return spec


def shrink(server, spec, cls, budget_s=150):
    t0 = time.monotonic()
    deadline = t0 + budget_s
    steps = 0
    cur = copy.deepcopy(spec)
    cur.pop("res", None)

    def test(s):
        nonlocal steps
        steps += 1
        return _fails(server, s, cls)

    if not test(cur):
        # not reproducible as is (should not happen: runs are deterministic)
        return cur, steps

    # 1. whole tasks -> emptied (indices stay)
    for t in range(len(cur["tasks"])):
        if time.monotonic() > deadline:
            break
        if not any("pseudo" not in op for op in cur["tasks"][t]):
            continue
        cand = copy.deepcopy(cur)
        cand["tasks"][t] = [dict(NOP) for _ in cand["tasks"][t]]
        if test(cand):
            cur = cand
    # 2. faults, switches, boundary switches
    for key in ("faults",):
        items = cur.get(key) or []
        if items:
            def tf(sub, key=key):
                c = copy.deepcopy(cur)
                c[key] = sub
                return test(c)
            cur[key] = _ddmin(items, tf, deadline)
    for key in ("switches", "at_op_boundaries"):
        items = cur["schedule"].get(key) or []
        if items:
            def ts(sub, key=key):
                c = copy.deepcopy(cur)
                c["schedule"][key] = sub
                return test(c)
            cur["schedule"][key] = _ddmin(items, ts, deadline)
    # 3. operations, list by list
    lists = [(-1, cur["prelude"])] + list(enumerate(cur["tasks"]))
    for t, _ in lists:
        ops = cur["prelude"] if t == -1 else cur["tasks"][t]
        idx = [k for k, op in enumerate(ops) if op.get("pseudo") != "nop"]
        if not idx:
            continue

        def to(sub, t=t):
            c = copy.deepcopy(cur)
            lst = c["prelude"] if t == -1 else c["tasks"][t]
            keep = set(sub)
            for k in range(len(lst)):
                if k not in keep:
                    lst[k] = dict(NOP)
            return test(c)
        keep = set(_ddmin(idx, to, deadline))
        for k in range(len(ops)):
            if k not in keep:
                ops[k] = dict(NOP)
    # 4. knobs and ad-hoc classes
    for k, v in (("gc", "disabled"), ("recursion_limit_after_import", None)):
        if (cur.get("knobs") or {}).get(k) != v and time.monotonic() < deadline:
            c = copy.deepcopy(cur)
            c["knobs"][k] = v
            if test(c):
                cur = c
    for k in ("env", "cwd"):
        if k in (cur.get("knobs") or {}) and time.monotonic() < deadline:
            c = copy.deepcopy(cur)
            del c["knobs"][k]
            if test(c):
                cur = c
    # 5. compact and verify
    small = compact(cur)
    import json
    used = json.dumps([small["prelude"], small["tasks"]])
    keep = {a["name"] for a in small.get("adhoc_classes", ())
            if ("adhoc.%s" % a["name"]) in used or ('"%s"' % a["name"]) in used}
    for _ in range(3):                             # ad-hoc bases of kept classes
        for a in small.get("adhoc_classes", ()):
            if a["name"] in keep:
                for b in [a.get("base") or ""] + list(a.get("bases") or ()):
                    if b.startswith("adhoc."):
                        keep.add(b[6:])
    small["adhoc_classes"] = [a for a in small.get("adhoc_classes", ())
                              if a["name"] in keep]
    if test(small):
        return small, steps
    return cur, steps
