"""Fresh-interpreter ("cold") runs: the history is executed in a newly started
interpreter with a seeded hash seed, flags and a seeded (possibly partial or
empty) import order; sub-packages not imported up front are loaded lazily by
the history itself, and an injected exception may interrupt such an import.

Inner side:  python [flags] -m sim.cold      (spec on stdin, result on stdout)
Outer side:  execute_cold(server, spec)      (worker; goldens come from forks of
                                              its fully imported pristine server)
"""
import copy
import hashlib
import importlib
import json
import os
import subprocess
import sys
import time

HERE = os.path.dirname(os.path.abspath(__file__))
VERIF = os.path.dirname(HERE)


def inner():
    spec = json.load(sys.stdin)
    from . import lockseam
    lockseam.install()
    import py_ecc  # noqa: F401  (top level only: sub-packages are lazy)
    from . import canon as C
    from . import child
    for name in spec["server"].get("import_order") or []:
        try:
            importlib.import_module("py_ecc." + name)
        except BaseException as e:  # noqa: B036 - reported as an outcome of this variant
            sys.stdout.write("\nCOLD-RESULT " + json.dumps(
                {"import_failed": name, "exc": C._typename(type(e)), "msg": str(e)[:200]}) + "\n")
            sys.stdout.flush()
            return 0
    base = {"full": C.snapshot(data_only=False), "data": C.snapshot(data_only=True)}
    sim = child.Sim(spec, base)
    res = sim.run()
    d, slots = C.snapshot(data_only=True)
    res["public_end"] = {k: v for k, v in d.items()
                         if not C.key_is_internal(k) and k not in slots}
    res["modules_end"] = C.pyecc_modules()
    sys.stdout.write("\nCOLD-RESULT " + json.dumps(res) + "\n")
    sys.stdout.flush()
    return 0


def run_cold_process(spec, timeout=300):
    srv = spec["server"]
    env = dict(os.environ)
    env["PYTHONHASHSEED"] = str(srv.get("hashseed", 0))
    env["PYTHONDONTWRITEBYTECODE"] = "1"
    for n, v in ((spec.get("knobs") or {}).get("env") or {}).items():
        env[n] = v                     # set before the interpreter starts (import-time reads)
    pp = [VERIF]
    if os.environ.get("SIM_REPO_ROOT"):
        pp.insert(0, os.environ["SIM_REPO_ROOT"])
    env["PYTHONPATH"] = os.pathsep.join(pp)
    try:
        r = subprocess.run([sys.executable] + list(srv.get("flags") or []) + ["-m", "sim.cold"],
                           cwd=VERIF, env=env, input=json.dumps(spec), capture_output=True,
                           text=True, timeout=timeout)
    except subprocess.TimeoutExpired:
        return {"timeout": True}
    for line in r.stdout.splitlines():
        if line.startswith("COLD-RESULT "):
            return json.loads(line[len("COLD-RESULT "):])
    return {"crash": r.returncode, "stderr": r.stderr[-2000:]}


def counts_of(res):
    out = {}
    for r in res.get("records", ()):
        if r[0] == "return":
            out["%d:%d" % (r[1], r[2])] = r[5]
    return out


def compare_public(server, res):
    """H9: after all imports (also interrupted and retried ones) the public
    constants of every module loaded in the cold interpreter equal those of
    the fully imported pristine server."""
    viol = []
    mine = server.base["public"][0]
    slots = server.base["data"][1]     # empty at import: lazily filled caches, not constants
    theirs = {k: v for k, v in (res.get("public_end") or {}).items() if k not in slots}
    loaded = set(res.get("modules_end") or [])
    bad = sorted(k for k, v in theirs.items() if k in mine and mine[k] != v)
    missing = sorted(k for k in mine if k.split(":", 1)[0] in loaded and k not in theirs)
    extra = sorted(k for k in theirs if k not in mine and k.split(":", 1)[0] in
                   {m.split(":", 1)[0] for m in mine})
    # lazily imported sub-modules appear as attributes of the py_ecc package
    extra = [k for k in extra if not k.startswith("py_ecc:")]
    if bad or missing or extra:
        viol.append({"invariant": "H9", "kind": "process-lifetime", "task": None, "op": None,
                     "function": None,
                     "detail": {"key": (bad + missing + extra)[0], "changed": bad[:10],
                                "missing": missing[:10], "extra": extra[:10],
                                "what": "public constants of a freshly started interpreter "
                                        "differ from the pristine server's"}})
    return viol


def import_failure(m, res, t0):
    """the pristine server imported every sub-package (default order); a fresh
    interpreter with this import order / flags cannot: process-lifetime dependence"""
    v = {"invariant": "H9", "kind": "process-lifetime", "task": None, "op": None,
         "function": None,
         "detail": {"key": "import:py_ecc.%s" % res["import_failed"], "exc": res.get("exc"),
                    "msg": res.get("msg"),
                    "what": "importing the sub-package fails in a freshly started interpreter "
                            "with this import order / flags, but succeeds in the default order"}}
    return {"model_s": 0.0, "sim_s": time.monotonic() - t0, "spec": m, "violations": [v],
            "counters": {}, "probes": {},
            "stats": {"switches": 0, "faults_fired": {}, "events": 0, "ops": 0, "i1_checks": 0,
                      "i1_midop_checks": 0, "evictions": 0, "gc_collects": 0,
                      "stack_faults_fired": 0, "ops_suspended": 0, "lock_blocks": 0},
            "records_digest": "import-failed",
            "coverage": {"nontrivial": [], "pairs": [], "sites": [], "fault_sites": [],
                         "interleaving": None},
            "res": {"records": []}}


def execute_cold(server, spec):
    """two passes: pass 1 fault-free gives per-operation step counts (import
    operations cost millions of steps only in a cold interpreter), pass 2
    places the planned faults/switches with those counts."""
    from . import runner
    t0 = time.monotonic()
    spec = copy.deepcopy(spec)
    has_frac = any("frac" in f for f in spec.get("faults", ())) or \
        any("frac" in s for s in (spec.get("schedule") or {}).get("switches", ()))
    counts = None
    if has_frac:
        probe = copy.deepcopy(spec)
        probe["faults"] = []
        probe["schedule"] = {"first": 0, "switches": [], "at_op_boundaries": []}
        pm = server.model_pass(probe)
        pres = run_cold_process(pm)
        if "import_failed" in pres:
            return import_failure(pm, pres, t0)
        if "records" not in pres:
            return {"harness_error": "cold probe: %s" % json.dumps(pres)[:1500], "spec": pm,
                    "model_s": 0, "sim_s": time.monotonic() - t0}
        counts = counts_of(pres)
    m = server.model_pass(spec, counts=counts)
    t1 = time.monotonic()
    res = run_cold_process(m)
    t2 = time.monotonic()
    out = {"model_s": t1 - t0, "sim_s": t2 - t1, "spec": m}
    if "import_failed" in res:
        return import_failure(m, res, t0)
    if "records" not in res:
        out["harness_error"] = "cold run: %s" % json.dumps(res)[:1500]
        return out
    if res.get("harness_error"):
        out["harness_error"] = res["harness_error"]
        return out
    viol, cnt = server.judge(m, res)
    for v in viol:
        if v["invariant"] == "H3":
            v["kind"] = "process-lifetime-or-history"
    viol += compare_public(server, res)
    out["violations"] = viol
    out["counters"] = {k: v for k, v in cnt.items() if isinstance(v, int)}
    out["stats"] = res["stats"]
    out["probes"] = res["probes"]
    out["records_digest"] = hashlib.sha256(json.dumps(res["records"]).encode()).hexdigest()[:24]
    out["coverage"] = runner.coverage_of(m, res)
    out["res"] = res
    return out


def replay(doc, path):
    from . import runner
    from .server import Server
    S = Server()
    out = execute_cold(S, doc)
    if "harness_error" in out:
        print("HARNESS-ERROR %s" % out["harness_error"][:1500])
        return 2
    want = doc.get("violation") or {}
    cls = runner.violation_class(want) if want else None
    same = [v for v in out["violations"] if cls is None or runner.violation_class(v) == cls]
    print("replayed cold run %s (import order %s, hashseed %s, flags %s): %d violation(s)" % (
        path, doc["server"].get("import_order"), doc["server"].get("hashseed"),
        doc["server"].get("flags"), len(out["violations"])))
    for v in out["violations"][:5]:
        print("  %s function=%s detail=%s" % (v["invariant"], v.get("function"),
                                               json.dumps(v.get("detail"))[:300]))
    if same:
        print("VIOLATION property=C20 replay=%s" % path)
        return 1
    print("not reproduced")
    return 0


if __name__ == "__main__":
    sys.exit(inner())
