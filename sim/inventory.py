"""Introspective inventories (no py_ecc call is made):
  * public callables vs. operation catalogue  -> "uncatalogued" list
  * static write-site scan of every py_ecc function (bytecode)
"""
import dis
import sys
import types

from . import canon as C
from . import gen as G
from . import ops as O

DUNDERS = {
    "add": ["__add__", "__radd__"], "sub": ["__sub__", "__rsub__"],
    "mul": ["__mul__", "__rmul__"],
    "truediv": ["__truediv__", "__rtruediv__", "__div__", "__rdiv__"],
    "pow": ["__pow__"], "neg": ["__neg__"], "eq": ["__eq__"], "ne": ["__ne__"],
    "lt": ["__lt__"], "le": ["__lt__"], "gt": ["__lt__"], "ge": ["__lt__"],
    "mod": ["__mod__"], "int": ["__int__"], "repr": ["__repr__"],
}


def _unwrap(f):
    if isinstance(f, (classmethod, staticmethod)):
        f = f.__func__
    if isinstance(f, property):
        f = f.fget
    if type(f).__name__ == "cached_property":
        f = f.func
    if isinstance(f, types.MethodType):
        f = f.__func__
    while hasattr(f, "__wrapped__"):
        f = f.__wrapped__
    return f if isinstance(f, types.FunctionType) else None


def _mro_func(cls, name):
    for k in cls.__mro__:
        if name in k.__dict__:
            return _unwrap(k.__dict__[name])
    return None


def all_public_functions():
    """{qualified name: function object} for every function defined in py_ecc"""
    out = {}
    for mn in C.pyecc_modules():
        m = sys.modules[mn]
        for name, v in list(vars(m).items()):
            if isinstance(v, types.FunctionType) and v.__module__ == mn:
                out["%s.%s" % (mn, name)] = v
            elif isinstance(v, type) and v.__module__ == mn:
                for an, av in list(vars(v).items()):
                    f = _unwrap(av)
                    if f is not None and getattr(f, "__module__", None) == mn:
                        out["%s.%s.%s" % (mn, name, an)] = f
    return out


def catalogued_functions():
    covered = set()
    for t in G.TEMPLATES:
        fn = t.fn
        try:
            if fn[0] == "f":
                f = _unwrap(getattr(sys.modules[fn[1]], fn[2]))
                if f:
                    covered.add(id(f))
            elif fn[0] == "c":
                if fn[1].startswith("adhoc."):
                    continue
                cls = C.REG.lookup(fn[1])
                f = _mro_func(cls, fn[2] or "__init__")
                if f:
                    covered.add(id(f))
            elif fn[0] in ("o", "a", "call"):
                ty = next((a for a in t.args if isinstance(a, str) and a.startswith("fld:")),
                          None)
                if ty is None:
                    continue
                _, fam, lvl = ty.split(":")
                if fam not in G.FAMS:
                    continue
                cls = C.REG.lookup(G.cls_name(fam, lvl))
                names = DUNDERS.get(fn[1], [fn[1]])
                for n in names:
                    f = _mro_func(cls, n)
                    if f:
                        covered.add(id(f))
        except Exception:
            continue
    return covered


def uncatalogued():
    cov = catalogued_functions()
    return sorted(n for n, f in all_public_functions().items() if id(f) not in cov)


# ---------------------------------------------------------------------------
WRITE_OPS = {"STORE_ATTR", "STORE_GLOBAL", "STORE_SUBSCR", "DELETE_ATTR", "DELETE_GLOBAL",
             "DELETE_SUBSCR", "STORE_DEREF", "STORE_SLICE"}
MUTATORS = {"append", "extend", "insert", "pop", "remove", "clear", "sort", "reverse",
            "update", "setdefault", "popitem", "add", "discard", "setrecursionlimit",
            "__setitem__", "__setattr__", "__delitem__"}


def write_sites():
    """{function qualname: sorted list of 'OP name' strings} — every store that is not a
    plain local store, and every call of a container-mutator method name."""
    out = {}
    for qn, f in all_public_functions().items():
        sites = set()
        stack = [f.__code__]
        while stack:
            code = stack.pop()
            for k in code.co_consts:
                if isinstance(k, types.CodeType):
                    stack.append(k)
            for ins in dis.get_instructions(code):
                if ins.opname in WRITE_OPS:
                    sites.add("%s %s" % (ins.opname, ins.argval if ins.argval is not None else ""))
                elif ins.opname in ("LOAD_ATTR", "LOAD_METHOD") and ins.argval in MUTATORS:
                    sites.add("CALL? %s" % ins.argval)
        if sites:
            out[qn] = sorted(sites)
    return out


def env_names():
    """names of environment variables the py_ecc sources mention (os.environ[...],
    os.environ.get(...), os.getenv(...)): ambient inputs a simulated caller may set"""
    import os
    import re
    import py_ecc
    root = os.path.dirname(os.path.abspath(py_ecc.__file__))
    pat = re.compile(r"""(?:environ(?:\.get)?\s*[\[(]|getenv\s*\()\s*['"]([A-Za-z_][A-Za-z0-9_]*)['"]""")
    out = set()
    for dp, _, files in os.walk(root):
        for fn in files:
            if fn.endswith(".py"):
                try:
                    with open(os.path.join(dp, fn), errors="replace") as f:
                        out.update(pat.findall(f.read()))
                except OSError:
                    pass
    return sorted(out)
