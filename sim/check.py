"""Master process of a check: starts the worker interpreters (one pristine server
each, every one a different process variant), distributes run indices,
aggregates results, writes the evidence file, prints the verdict lines."""
import collections
import json
import os
import queue
import random
import shutil
import subprocess
import sys
import tempfile
import threading
import time

HERE = os.path.dirname(os.path.abspath(__file__))
VERIF = os.path.dirname(HERE)
PY = sys.executable
SUBPACKAGES = ["bls", "bls12_381", "bn128", "optimized_bls12_381", "optimized_bn128",
               "secp256k1"]


def is_oo_index(i):
    """run indices executed by the -OO process class.  LINE-event streams differ
    slightly under -OO (doc strings), so the class of a run is a function of its
    index, never of the worker count: one seed stays one execution."""
    return i % 16 == 15


def variants(n, seed):
    """n standard workers (every one another hash seed and import order, some
    with -O) plus max(1, n // 12) workers started with -OO."""
    out = []
    r = random.Random(seed * 7919 + 17)
    noo = max(1, n // 12)
    for w in range(n + noo):
        order = SUBPACKAGES[:]
        if w > 0:
            r.shuffle(order)
        flags = []
        cls = "std"
        if w >= n:
            flags = ["-OO"]
            cls = "OO"
        elif w % 8 == 5:
            flags = ["-O"]
        out.append({"name": "w%d" % w, "class": cls,
                    "hashseed": 0 if w == 0 else (w * 7919 + seed) % 4294967295,
                    "import_order": order, "flags": flags})
    return out


def load_known_findings():
    p = os.path.join(VERIF, "known_findings.json")
    try:
        with open(p) as f:
            return json.load(f)
    except OSError:
        return {"findings": [], "fixed": []}


def match_known(v, known):
    for k in known.get("findings", ()):
        if k.get("property") != "C20":
            continue
        if k.get("invariant") == v.get("invariant") and \
                k.get("function") == v.get("function"):
            m = k.get("detail_contains")
            if m is None or m in json.dumps(v.get("detail")):
                return k
    return None


class Worker:
    def __init__(self, w, variant, job, env, q):
        self.w = w
        self.variant = variant
        e = dict(env)
        e["PYTHONHASHSEED"] = str(variant["hashseed"])
        self.proc = subprocess.Popen(
            [PY] + variant["flags"] + ["-m", "sim.runner"], cwd=VERIF, env=e,
            stdin=subprocess.PIPE, stdout=subprocess.PIPE, stderr=subprocess.PIPE,
            text=True, start_new_session=True)   # own process group: kill() takes the forks too
        self.proc.stdin.write(json.dumps(job))
        self.proc.stdin.close()
        self.q = q
        self.err = []
        self.t = threading.Thread(target=self.pump, daemon=True)
        self.t.start()
        self.te = threading.Thread(target=self.pump_err, daemon=True)
        self.te.start()

    def kill(self):
        import signal
        try:
            os.killpg(self.proc.pid, signal.SIGKILL)
        except (OSError, ProcessLookupError):
            try:
                self.proc.kill()
            except OSError:
                pass

    def pump(self):
        for line in self.proc.stdout:
            line = line.strip()
            if not line:
                continue
            try:
                self.q.put((self.w, json.loads(line)))
            except ValueError:
                self.q.put((self.w, {"type": "garbage", "line": line[:500]}))
        self.proc.wait()
        self.q.put((self.w, {"type": "exit", "code": self.proc.returncode}))

    def pump_err(self):
        for line in self.proc.stderr:
            self.err.append(line)
            if len(self.err) > 200:
                del self.err[:100]


def run_check(tier, seed, nworkers=None, nruns=None, budget_s=None, evidence_path=None,
              want_records=False, quiet=False):
    t0 = time.monotonic()
    try:
        ncpu = len(os.sched_getaffinity(0))
    except (AttributeError, OSError):
        ncpu = os.cpu_count() or 1
    nworkers = nworkers or int(os.environ.get("VERIF_WORKERS", 0)) or max(2, min(16, ncpu))
    if budget_s is None:
        # wall-clock budget after which workers start no further run (what was
        # explored by then is what the evidence reports); on 16 cores the quick
        # plan finishes well inside it
        budget_s = float(os.environ.get("VERIF_BUDGET_S", 0)) or \
            (330 if tier == "quick" else 2400)
    sys.path.insert(0, VERIF)
    from sim import runner
    plan = runner.build_plan(tier, nruns, seed)
    n = len(plan)
    tmp = tempfile.mkdtemp(prefix="pyecc-sim-")
    cache_dirs = {"std": os.path.join(tmp, "gold-std"), "OO": os.path.join(tmp, "gold-OO")}
    for d in cache_dirs.values():
        os.makedirs(d)
    replay_dir = os.path.join(VERIF, "replays")
    env = dict(os.environ)
    env["PYTHONDONTWRITEBYTECODE"] = "1"
    env["PYTHONPYCACHEPREFIX"] = os.path.join(tmp, "pyc")
    env["PYTHONPATH"] = VERIF + os.pathsep + env.get("PYTHONPATH", "")
    env.pop("PYTHONOPTIMIZE", None)
    q = queue.Queue()
    vs = variants(nworkers, seed)
    only = [x for x in (os.environ.get("SIM_ONLY") or "").split(",") if x]   # developer aid
    sel = [i for i in range(n) if not only or plan[i][0] in only]
    by_class = {"std": [i for i in sel if not is_oo_index(i)],
                "OO": [i for i in sel if is_oo_index(i)]}
    members = {c: [w for w, v in enumerate(vs) if v["class"] == c] for c in by_class}
    claim_dir = os.path.join(tmp, "claims")
    os.makedirs(claim_dir)

    def launch(assign, deadline, extra_plan=None, recheck_of=None):
        ws = {}
        for w, v in enumerate(vs):
            if not assign.get(w):
                continue
            c = v["class"]
            job = {"seed": seed, "tier": tier, "nruns": nruns, "variant": v,
                   "recheck": (recheck_of or {}).get(w, []),
                   "cache_dir": cache_dirs[c],
                   "peer_cache_dirs": [d for k, d in cache_dirs.items() if k != c],
                   "replay_dir": replay_dir, "extra_plan": extra_plan or {},
                   "indices": assign[w], "deadline_s": deadline, "claim_dir": claim_dir,
                   "want_records": want_records}
            ws[w] = Worker(w, v, job, env, q)
        return ws

    assign, recheck_of = {}, {}
    for w, v in enumerate(vs):
        c = v["class"]
        pos = members[c].index(w)
        peer = members[c][(pos + 1) % len(members[c])]
        peer_list = by_class[c][members[c].index(peer)::len(members[c])]
        # determinism sample: two of the peer's runs, from the first third of its list
        # so that the peer executes them even when the wall budget cuts the plan
        # (candidates from the first third of the class list; the worker re-executes the
        #  first two of them that it did not execute itself)
        head = by_class[c][: max(3, len(by_class[c]) // 3)]
        recheck_of[w] = [head[(k * 37 + w * 11) % len(head)] for k in range(8)] if head else []
        # every worker of a class gets the class's whole ordered list, rotated by its
        # position; who executes an index is decided by claim files (dynamic balance)
        lst = by_class[c]
        assign[w] = lst[pos:] + lst[:pos] if claim_dir else lst[pos::len(members[c])]
    workers = launch(assign, budget_s, recheck_of=recheck_of)
    nworkers = len(vs)

    agg = {
        "runs": 0, "ops": 0, "events": 0, "switches": 0, "ops_suspended": 0,
        "counters": collections.Counter(), "faults_fired": collections.Counter(),
        "stack_faults_fired": 0, "i1_checks": 0, "i1_midop_checks": 0, "evictions": 0,
        "gc_collects": 0, "probes": collections.Counter(), "scenarios": collections.Counter(),
        "configs": collections.Counter(), "kinds": set(), "nontrivial": set(), "pairs": set(),
        "sites": set(), "fault_sites": set(), "interleavings": set(), "samples": [],
        "harness_errors": [], "violations": [], "hello": {}, "server_stats": [],
        "deadline_hit": [], "digests": {}, "records": {}, "max_tasks": 0,
        "model_s": 0.0, "sim_s": 0.0, "reruns": {}, "start_failures": {},
        "identity_reuse": 0, "classes_dropped": 0, "state_probes": {}, "targeted": None,
        "slowest": [], "scenario_s": collections.Counter(), "state_touch": {},
    }

    # hard wall limit for the whole check: the budget stops workers from *starting*
    # runs, a run in progress may take its time (and a hung child up to its timeout);
    # whatever is still going on when the hard limit is reached is abandoned and what
    # was explored until then is reported
    hard_s = budget_s + (270 if tier == "quick" else 600)

    def collect(workers):
        live = set(workers)
        last_msg = time.monotonic()
        stall_limit = 1800
        while live:
            if time.monotonic() - t0 > hard_s:
                agg["hard_limit_hit"] = sorted(live)
                for wk in workers.values():
                    try:
                        wk.kill()
                    except OSError:
                        pass
                break
            try:
                w, msg = q.get(timeout=5)
            except queue.Empty:
                if time.monotonic() - last_msg > stall_limit:
                    agg["harness_errors"].append("no worker output for %ds" % stall_limit)
                    for wk in workers.values():
                        wk.kill()
                    break
                continue
            last_msg = time.monotonic()
            ty = msg.get("type")
            if ty == "hello":
                agg["hello"].setdefault(w, msg)
            elif ty == "run":
                if "harness_error" in msg:
                    agg["harness_errors"].append("run %d: %s" % (msg["index"],
                                                                 msg["harness_error"]))
                    continue
                agg["runs"] += 1
                st = msg["stats"]
                agg["ops"] += st["ops"]
                agg["events"] += st["events"]
                agg["switches"] += st["switches"]
                agg["ops_suspended"] += st["ops_suspended"]
                agg["stack_faults_fired"] += st["stack_faults_fired"]
                agg["i1_checks"] += st["i1_checks"]
                agg["i1_midop_checks"] += st["i1_midop_checks"]
                agg["evictions"] += st["evictions"]
                agg["gc_collects"] += st["gc_collects"]
                agg["identity_reuse"] += st.get("identity_reuse", 0)
                agg["classes_dropped"] += st.get("classes_dropped", 0)
                agg["faults_fired"].update(st["faults_fired"])
                agg["counters"].update(msg["counters"])
                for k, c in msg["probes"].items():
                    if k.startswith("new-name:") and msg["scenario"].startswith("cold"):
                        continue      # names of modules first imported inside a cold run
                    agg["probes"][k] += c
                    # hidden state touched by a warm-server run of one known kind:
                    # remembered per state key, used to aim the second phase
                    if msg["scenario"] in ("samekind", "firstuse") and msg.get("focus") and \
                            k.split(":", 1)[0] in ("slot-filled", "internal-changed", "new-name",
                                                   "removed-internal", "code-rebound"):
                        agg["state_probes"].setdefault(k, set()).add(msg["focus"])
                for kind_, keys_ in (msg.get("touched") or {}).items():
                    for key_ in keys_:
                        agg["state_touch"].setdefault(key_, set()).add(kind_)
                agg["scenarios"][msg["scenario"]] += 1
                agg["configs"][msg["config"]] += 1
                agg["kinds"].update(msg["kinds"])
                cov = msg["coverage"]
                agg["nontrivial"].update(cov["nontrivial"])
                agg["pairs"].update(cov["pairs"])
                agg["sites"].update(cov["sites"])
                agg["fault_sites"].update(cov["fault_sites"])
                if cov["interleaving"]:
                    agg["interleavings"].add(cov["interleaving"])
                agg["max_tasks"] = max(agg["max_tasks"], msg.get("ntasks", 0))
                agg["model_s"] += msg["model_s"]
                agg["sim_s"] += msg["sim_s"]
                agg["scenario_s"][msg["scenario"]] += msg["model_s"] + msg["sim_s"]
                agg["slowest"].append((round(msg["model_s"] + msg["sim_s"], 1), msg["index"],
                                       msg["scenario"], msg.get("focus")))
                if len(agg["slowest"]) > 64:
                    agg["slowest"] = sorted(agg["slowest"], reverse=True)[:8]
                agg["digests"][msg["index"]] = msg["records_digest"]
                if want_records:
                    agg["records"][msg["index"]] = msg.get("records")
                if "sample" in msg and len(agg["samples"]) < 6:
                    agg["samples"].append(msg["sample"])
                if "violation" in msg:
                    agg["violations"].append(msg)
                    if os.environ.get("SIM_STOP_AT_FIRST"):
                        agg["stopped_at_first"] = True
                        for wk in workers.values():
                            try:
                                wk.kill()
                            except OSError:
                                pass
                        break
            elif ty == "rerun":
                agg["reruns"][msg["index"]] = msg.get("records_digest")
            elif ty == "deadline":
                agg["deadline_hit"].append((w, msg["next_index"]))
            elif ty == "bye":
                agg["server_stats"].append(msg["server_stats"])
            elif ty == "start_failure":
                agg["start_failures"][w] = msg
            elif ty == "harness_error":
                agg["harness_errors"].append("worker %d: %s" % (w, msg["what"]))
            elif ty == "garbage":
                agg["harness_errors"].append("worker %d printed: %s" % (w, msg["line"]))
            elif ty == "exit":
                live.discard(w)
                if msg["code"] != 0 and not agg.get("stopped_at_first") and \
                        not agg.get("hard_limit_hit") and w not in agg["start_failures"]:
                    agg["harness_errors"].append(
                        "worker %d exited with %s: %s" % (w, msg["code"],
                                                          "".join(workers[w].err)[-1500:]))

    collect(workers)

    # ---- second phase: aim at the operation kinds that touched hidden state -------
    # (on a tree whose functions keep no state there is nothing to aim at and the
    # phase is skipped; it changes where the search looks, never the verdict)
    if agg["state_probes"] and not agg.get("stopped_at_first") and not only and nruns is None \
            and not agg.get("hard_limit_hit") and time.monotonic() - t0 < hard_s - 150:
        from sim import gen as G
        chosen = []

        def pref(k):
            # library classes before ad-hoc small-prime families (a soak over GF(7)
            # never produces many distinct values), then cheap before expensive
            t = G.BY_KIND.get(k)
            if t is None:
                return (2, 1e9, k)
            adhoc = t.group.startswith("field:") and t.group[6:] not in G.FAMS
            return (1 if adhoc else 0, t.cost, k)
        # state keys that changed or filled first, names that merely appeared last; one
        # kind per key in turn, so that every piece of hidden state gets its share of the
        # twelve kinds
        order = sorted(agg["state_probes"],
                       key=lambda k: (k.startswith(("new-name", "code-rebound")), k))
        # kinds whose call, made alone, touches the key (known exactly from the model's
        # evaluations once hidden state had been noticed) before kinds in whose runs the
        # change was merely observed (their argument producers may have caused it)
        per_key = {}
        for key in order:
            exact = sorted(agg["state_touch"].get(key, ()), key=pref)
            seen_ = [k for k in sorted(agg["state_probes"][key], key=pref) if k not in exact]
            per_key[key] = [k for k in exact + seen_ if k in G.BY_KIND][:3]
        for rnd in range(3):
            for key in order:
                if rnd < len(per_key[key]) and per_key[key][rnd] not in chosen \
                        and len(chosen) < 12:
                    chosen.append(per_key[key][rnd])
        extra = {}
        idx = n
        for k in chosen:
            ent = [("soak", k, True), ("soak", k, False),
                   ("samekind", k, False), ("samekind", k, False), ("samekind", k, True),
                   ("firstuse", k, True), ("firstuse", k, True), ("firstuse", k, True),
                   ("pairkind", k, False), ("pairkind", k, False), ("pairkind", k, True)]
            for e in ent:
                extra[str(idx)] = list(e)
                idx += 1
        left = budget_s - (time.monotonic() - t0)
        std = [w for w, v in enumerate(vs) if v["class"] == "std"
               and w not in agg["start_failures"]]
        assign2 = {w: [] for w in std}
        for j, i in enumerate(range(n, idx)):
            assign2[std[j % len(std)]].append(i)
        agg["targeted"] = {"state_keys": {k: sorted(v)[:6]
                                          for k, v in sorted(agg["state_probes"].items())[:20]},
                           "touched_when_called_alone": {
                               k: sorted(v, key=pref)[:6]
                               for k, v in sorted(agg["state_touch"].items())[:20]},
                           "kinds": chosen, "runs_planned": idx - n}
        runs_before = agg["runs"]
        collect(launch(assign2, min(max(70.0, left), 110.0, hard_s - (time.monotonic() - t0) - 60),
                       extra_plan=extra))
        agg["targeted"]["runs_executed"] = agg["runs"] - runs_before
        n = idx
    shutil.rmtree(tmp, ignore_errors=True)
    wall = time.monotonic() - t0
    # determinism sample: some runs were executed a second time by another worker
    agg["reruns_compared"] = 0
    for i, d in agg["reruns"].items():
        if d is not None and i in agg["digests"]:
            agg["reruns_compared"] += 1
            if agg["digests"][i] != d:
                agg["harness_errors"].append(
                    "run %d is not deterministic: event-log digest %s vs %s when repeated by "
                    "another worker" % (i, agg["digests"][i], d))
    # inventories (informational, from worker 0)
    h0 = agg["hello"].get(0) or {}
    agg["uncatalogued"] = h0.get("uncatalogued")
    try:
        with open(os.path.join(VERIF, "write_sites_baseline.json")) as f:
            basew = json.load(f)
        cur = h0.get("write_sites") or {}
        new = {}
        if isinstance(cur, dict) and "error" not in cur:
            for fn, sites in cur.items():
                extra = sorted(set(sites) - set(basew.get(fn, ())))
                if extra:
                    new[fn] = extra
        agg["new_write_sites"] = new
    except (OSError, ValueError):
        agg["new_write_sites"] = None

    # H9: value-level snapshot of the constants must not depend on import order,
    # hash seed or -O/-OO
    snap = {}
    for w, h in agg["hello"].items():
        snap.setdefault(h["snapshot_data"], []).append(w)
    h9 = None
    if len(snap) > 1:
        ws = [v[0] for v in snap.values()]
        a, b = agg["hello"][ws[0]]["snapshot_keys"], agg["hello"][ws[1]]["snapshot_keys"]
        keys = sorted(k for k in set(a) | set(b) if a.get(k) != b.get(k))
        h9 = {"invariant": "H9", "function": None, "kind": "process-lifetime",
              "detail": {"what": "public constants differ between process variants "
                                 "(import order / hash seed / -O)",
                         "keys": keys[:20],
                         "groups": {d: [vs[w] for w in ws] for d, ws in snap.items()}}}
    # a process variant (another import order / hash seed / -O) in which the package
    # cannot even be imported, while the default variant imports fine, is a
    # process-lifetime dependence (H9); if the default variant fails too the tree is
    # simply broken and that is the harness's problem, not a verdict
    if agg["start_failures"]:
        ok = [w for w in agg["hello"]]
        if ok and len(agg["start_failures"]) < len(vs):
            good = vs[min(ok)]
            wbad = min(agg["start_failures"])
            sf = agg["start_failures"][wbad]
            agg["import_variant_violation"] = {
                "invariant": "H9", "function": None, "kind": "process-lifetime",
                "task": None, "op": None,
                "detail": {"key": "import", "error": sf["error"],
                           "what": "the sub-packages import in one process variant and "
                                   "fail to import in another (import order / hash seed / "
                                   "-O flags)",
                           "failing_variants": len(agg["start_failures"])},
                "variants": [good, vs[wbad]]}
        else:
            for w, sf in agg["start_failures"].items():
                agg["harness_errors"].append("worker %d: server start: %s" % (w, sf["error"]))
    return agg, wall, h9, vs, n


def verdict(agg, h9, quiet=False):
    known = load_known_findings()
    new = 0
    lines = []
    if h9 is not None:
        os.makedirs(os.path.join(VERIF, "replays"), exist_ok=True)
        p = os.path.join(VERIF, "replays", "C20-H9-snapshot.json")
        with open(p, "w") as f:
            json.dump({"property": "C20", "scenario": "snapshot-variants", "violation": h9}, f,
                      indent=1)
        lines.append("VIOLATION property=C20 replay=%s" % p)
        new += 1
    iv = agg.get("import_variant_violation")
    if iv is not None:
        v = {k: iv[k] for k in ("invariant", "function", "kind", "task", "op", "detail")}
        k = match_known(v, known)
        if k is not None:
            lines.append("KNOWN-FINDING: property=C20 %s" % k["what"])
        else:
            os.makedirs(os.path.join(VERIF, "replays"), exist_ok=True)
            p = os.path.join(VERIF, "replays", "C20-H9-import.json")
            with open(p, "w") as f:
                json.dump({"format": 1, "property": "C20", "scenario": "import-variants",
                           "variants": iv["variants"], "violation": v}, f, indent=1)
            lines.append("VIOLATION property=C20 replay=%s" % p)
            lines.append("  invariant=H9 kind=process-lifetime detail=%s"
                         % json.dumps(v["detail"])[:400])
            new += 1
    seen_known = set()
    # reproducible reports first
    for msg in sorted(agg["violations"], key=lambda m: (not m.get("reproduced"), m["index"])):
        v = msg["violation"]
        k = match_known(v, known)
        if k is not None:
            if k["id"] not in seen_known:
                seen_known.add(k["id"])
                lines.append("KNOWN-FINDING: property=C20 %s" % k["what"])
            continue
        new += 1
        lines.append("VIOLATION property=C20 replay=%s" % msg["replay"])
        lines.append("  invariant=%s kind=%s function=%s run_index=%s reproduced_after_shrink=%s"
                     % (v.get("invariant"), v.get("kind"), v.get("function"), msg["index"],
                        msg.get("reproduced")))
        lines.append("  detail=%s" % json.dumps(v.get("detail"))[:600])
    return new, lines


def write_evidence(path, tier, seed, agg, wall, nviol, vs, nplan):
    c = agg["counters"]
    hours = wall / 3600.0 if wall > 0 else 1e-9
    sstats = collections.Counter()
    for s in agg["server_stats"]:
        for k, v in s.items():
            sstats[k] += v
    coverage = {
        "evaluations": int(agg["ops"]),
        "distinct_nontrivial": len(agg["nontrivial"]),
        "rule": ("evaluations = public-API operations executed under the simulator (each also "
                 "evaluated alone in a pristine fork as the reference model). A case is "
                 "(operation kind, digest of canonical arguments, context signature) and is "
                 "non-trivial when its context is: the operation was itself pre-empted at a "
                 "py_ecc line (signature includes the first pre-emption site), or it started "
                 "while another caller's operation was suspended mid-call (signature includes "
                 "that operation's kind), or it ran after an injected fault, or after a register "
                 "eviction + gc.collect() in the same run; faulted operations are excluded. "
                 "distinct_nontrivial counts distinct such triples over the whole check."),
        "samples": agg["samples"],
        "simulated_runs": agg["runs"],
        "planned_runs": nplan,
        "runs_per_hour": int(agg["runs"] / hours),
        "seeds": {"verif_seed": seed, "run_indices": "0..%d (one derived PRNG per index)"
                  % (nplan - 1)},
        "simulated_time": {"unit": "py_ecc LINE events (logical steps; py_ecc has no clock)",
                           "steps": int(agg["events"])},
        "context_switches": int(agg["switches"]),
        "operations_suspended_mid_call": int(agg["ops_suspended"]),
        "max_concurrent_callers": agg["max_tasks"],
        "faults_fired": {
            "async_exception": dict(agg["faults_fired"]),
            "stack_exhaustion": int(agg["stack_faults_fired"]),
            "preemption_by_other_caller": int(agg["ops_suspended"]),
            "register_eviction": int(agg["evictions"]),
            "gc_collect": int(agg["gc_collects"]),
            "adhoc_classes_dropped_and_collected": int(agg["classes_dropped"]),
            "identity_reuse_forced": int(agg["identity_reuse"]),
            "process_variants": [{"name": v["name"], "hashseed": v["hashseed"],
                                  "flags": v["flags"], "import_order": v["import_order"]}
                                 for v in vs],
        },
        "fault_kinds_not_applicable": ["message loss/duplication/reordering", "partitions",
                                       "clock skew", "disk errors / torn writes",
                                       "failing syscalls"],
        "distinct_interleavings": len(agg["interleavings"]),
        "interleaving_measure": ("digest of the sequence (suspended operation kind, py_ecc "
                                 "file:line of the pre-emption) over one run"),
        "ordered_kind_pairs": len(agg["pairs"]),
        "preemption_sites": len(agg["sites"]),
        "fault_sites": len(agg["fault_sites"]),
        "operation_kinds_executed": len(agg["kinds"]),
        "scenarios": dict(agg["scenarios"]),
        "configs": dict(agg["configs"]),
        "compared_with_model": int(c.get("compared", 0)),
        "faulted_not_compared": int(c.get("faulted", 0)),
        "resource_indeterminate": int(c.get("resource_indeterminate", 0)),
        "budget_exceeded": int(c.get("budget_exceeded", 0)),
        "skipped_unbuildable_or_missing": int(c.get("skipped", 0)),
        "trace_divergence_probe": int(c.get("trace_divergence", 0)),
        "representation_drift_probe": int(c.get("representation_drift", 0)),
        "i1_snapshot_checks": int(agg["i1_checks"]),
        "i1_checks_while_suspended": int(agg["i1_midop_checks"]),
        "probes": dict(agg["probes"].most_common(30)),
        "second_phase_aimed_at_hidden_state": agg.get("targeted"),
        "seconds_per_scenario": {k: round(v, 1) for k, v in agg["scenario_s"].items()},
        "slowest_runs_s": [list(x) for x in sorted(agg["slowest"], reverse=True)[:8]],
        "golden": dict(sstats),
        "determinism_sample": {"runs_repeated_by_another_worker": agg.get("reruns_compared", 0),
                               "digest_mismatches": sum(
                                   1 for e in agg["harness_errors"] if "not deterministic" in e)},
        "uncatalogued_callables": agg.get("uncatalogued"),
        "uncatalogued_note": ("py_ecc.__getattr__/__dir__/_import_module are module-protocol "
                              "hooks (exercised through the lazy.* operations, dir() excluded: "
                              "see DESIGN 4.1); the _Core*/abstract methods are reached through "
                              "the public entry points"),
        "new_write_sites_vs_baseline": agg.get("new_write_sites"),
        "components": {"real": ["all of py_ecc", "hashlib/hmac (OpenSSL)",
                                "eth_utils.ValidationError", "CPython threads, gc, import system"],
                       "stub": []},
        "deadline_hit": agg["deadline_hit"],
        "hard_limit_hit": agg.get("hard_limit_hit"),
        "harness_errors": agg["harness_errors"][:5],
        "runs_lost_to_harness_errors": sum(1 for e in agg["harness_errors"]
                                           if e.startswith("run ")),
    }
    ev = {
        "property_id": "C20", "tier": tier, "seed": int(seed), "level": "exploration",
        "coverage": coverage,
        "assumptions": [
            "seeded sampling of histories, schedules and fault points, not enumeration",
            "pre-emption and fault points are py_ecc LINE events (PEP 669); code inside one "
            "line and inside C calls is atomic, as under the GIL",
            "the reference model is the tree under test itself evaluated without history "
            "(one call per pristine fork): functional bugs move both sides and are out of scope",
            "value-level canonical forms define equality (sgn0 cache entries are checked "
            "for coherence instead of compared)",
        ],
        "wall_s": round(wall, 2),
        "violations": int(nviol),
    }
    os.makedirs(os.path.dirname(path), exist_ok=True)
    tmp = path + ".tmp"
    with open(tmp, "w") as f:
        json.dump(ev, f, indent=1)
    os.replace(tmp, path)
    return ev


def main(argv):
    import argparse
    ap = argparse.ArgumentParser()
    ap.add_argument("prop")
    ap.add_argument("--tier", default=os.environ.get("VERIF_TIER") or "quick")
    ap.add_argument("--nruns", type=int, default=None)
    ap.add_argument("--workers", type=int, default=None)
    ap.add_argument("--budget", type=float, default=None)
    ap.add_argument("--evidence", default=os.path.join(VERIF, "evidence", "C20.json"))
    a = ap.parse_args(argv)
    if a.prop != "C20":
        print("HARNESS-ERROR unknown property %s" % a.prop)
        return 2
    tier = a.tier if a.tier in ("quick", "thorough") else "quick"
    seed = int(os.environ.get("VERIF_SEED") or 0)
    print("C20 check: tier=%s VERIF_SEED=%d" % (tier, seed))
    sys.stdout.flush()
    agg, wall, h9, vs, nplan = run_check(tier, seed, a.workers, a.nruns, a.budget)
    nviol, lines = verdict(agg, h9)
    ev = write_evidence(a.evidence, tier, seed, agg, wall, nviol, vs, nplan)
    cov = ev["coverage"]
    print("runs=%d/%d ops=%d compared=%d steps=%d switches=%d faults=%s stack_faults=%d "
          "distinct_nontrivial=%d interleavings=%d wall=%.1fs"
          % (agg["runs"], nplan, agg["ops"], cov["compared_with_model"], agg["events"],
             agg["switches"], dict(agg["faults_fired"]), agg["stack_faults_fired"],
             cov["distinct_nontrivial"], cov["distinct_interleavings"], wall))
    for ln in lines:
        print(ln)
    # a failure of the machinery in a single run (e.g. a child killed by the wall
    # timeout on an overloaded machine) means that run explored nothing; it is
    # reported, and tolerated while it stays isolated.  Anything systemic - a worker
    # that died, a determinism mismatch, more than a handful of failed runs - makes
    # the check itself unreliable: exit 2, never 0.
    run_level = [e for e in agg["harness_errors"] if e.startswith("run ")]
    systemic = [e for e in agg["harness_errors"] if not e.startswith("run ")]
    if len(run_level) > max(3, agg["runs"] // 200):
        systemic += run_level
        run_level = []
    for e in run_level:
        print("HARNESS-NOTE (run not counted) %s" % e[:600].replace("\n", " | "))
    if systemic:
        for e in systemic[:10]:
            print("HARNESS-ERROR %s" % e[:1500])
        if nviol:
            return 1
        return 2
    if agg["runs"] == 0:
        print("HARNESS-ERROR no run completed")
        return 2
    return 1 if nviol else 0
