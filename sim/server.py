"""The pristine server: an interpreter that has imported py_ecc and never calls
it.  It forks one child per simulated run and one per golden evaluation,
runs the reference-model pass over a program, and judges the recorded history.
"""
import copy
import faulthandler
import hashlib
import importlib
import json
import os
import select
import signal
import subprocess
import sys
import time
import traceback

from . import lockseam
lockseam.install()   # before py_ecc is imported anywhere in this process

from . import canon as C  # noqa: E402
from . import ops as O  # noqa: E402

SUBPACKAGES = ["bls", "bls12_381", "bn128", "optimized_bls12_381", "optimized_bn128",
               "secp256k1"]
RESOURCE_EXC = ("builtins.RecursionError", "builtins.MemoryError")


class HarnessError(Exception):
    pass


def assert_repo_tree():
    import py_ecc
    p = os.path.realpath(py_ecc.__file__)
    root = os.path.realpath(os.environ.get("SIM_REPO_ROOT") or "/repo") + os.sep
    if not p.startswith(root):
        raise HarnessError("py_ecc imported from %s, not from %s" % (p, root))


def _read_all(fd, pid, timeout):
    chunks = []
    deadline = time.monotonic() + timeout
    while True:
        left = deadline - time.monotonic()
        if left <= 0:
            try:
                os.kill(pid, signal.SIGKILL)
            except ProcessLookupError:
                pass
            return None
        r, _, _ = select.select([fd], [], [], min(left, 5.0))
        if not r:
            continue
        b = os.read(fd, 1 << 20)
        if not b:
            break
        chunks.append(b)
    return b"".join(chunks)


def fork_call(fn, payload, timeout=600):
    """Run fn(payload) in a forked child; JSON result over a pipe."""
    r, w = os.pipe()
    sys.stdout.flush()
    sys.stderr.flush()
    pid = os.fork()
    if pid == 0:
        code = 0
        try:
            os.close(r)
            faulthandler.enable()
            faulthandler.dump_traceback_later(timeout + 5, exit=True)
            try:
                res = fn(payload)
            except BaseException:  # noqa: B036
                res = {"child_exception": traceback.format_exc()[-3000:]}
            data = json.dumps(res).encode()
            off = 0
            while off < len(data):
                off += os.write(w, data[off:off + (1 << 16)])
            os.close(w)
        except BaseException:  # noqa: B036
            code = 3
        finally:
            os._exit(code)
    os.close(w)
    data = _read_all(r, pid, timeout)
    os.close(r)
    try:
        _, status = os.waitpid(pid, 0)
    except ChildProcessError:
        status = -1
    if data is None:
        return {"timeout": True}
    if not data:
        return {"crash": status}
    try:
        return json.loads(data)
    except ValueError:
        return {"crash": status, "garbled": True}


class Server:
    def __init__(self, import_order=None, cache_dir=None, variant=None, peer_cache_dirs=()):
        self.variant = variant or {}
        self.peer_cache_dirs = list(peer_cache_dirs or ())
        self.h9_mismatches = []
        order = import_order or SUBPACKAGES
        self.import_order = list(order)
        for name in order:
            importlib.import_module("py_ecc." + name)
        assert_repo_tree()
        C.REG.refresh()
        C.field_bases()
        self.base = {
            "full": C.snapshot(data_only=False),
            "data": C.snapshot(data_only=True),
        }
        # public constants only (no underscore names, no cache slots): what must
        # be identical in every process variant (H9)
        d, slots = self.base["data"]
        self.base["public"] = ({k: v for k, v in d.items()
                                if not C.key_is_internal(k) and k not in slots}, set())
        # sets are not JSON; children inherit this object through fork
        from . import child
        child.preinstall_monitor()
        child.GOLDEN_BASE = self.base["data"]
        self.want_touched = False     # switched on by the worker once hidden state was seen
        self.cache_dir = cache_dir
        try:
            from . import inventory
            self.env_names = inventory.env_names()
        except Exception:
            self.env_names = []
        self.peer = None          # a Peer (sim.variant): second reference model, lazily started
        self.peer_variant = None
        self.mem = {}
        self.stats = {"golden_evals": 0, "golden_mem_hits": 0, "golden_disk_hits": 0,
                      "sim_runs": 0, "golden_time": 0.0, "sim_time": 0.0}

    # ------------------------------------------------------------------
    def snapshot_digest(self, mode="data"):
        d = self.base[mode][0]
        return hashlib.sha256(json.dumps(d, sort_keys=True).encode()).hexdigest()[:24]

    # ------------------------------------------------------------------
    GOLDEN_TIMEOUT = 60      # wall seconds for one call evaluated alone (C-level work such as
                             # int ** int cannot be stopped by the step budget); then "budget"

    def golden_raw(self, req, timeout=None):
        timeout = timeout or self.GOLDEN_TIMEOUT
        from . import child
        t = time.monotonic()
        res = fork_call(child.run_golden, req, timeout)
        self.stats["golden_evals"] += 1
        self.stats["golden_time"] += time.monotonic() - t
        if "child_exception" in res:
            raise HarnessError("golden child failed: %s" % res["child_exception"])
        if res.get("timeout"):
            return {"outcome": ["budget"], "count": 0, "i2": True, "timeout": True}
        if "crash" in res:
            raise HarnessError("golden child crashed: %r for %s" % (res, O.fn_key(req["fn"])))
        return res

    def golden(self, req, use_cache=True):
        key = hashlib.sha256(json.dumps(
            [req["fn"], req["args"], req.get("kw") or {}, req.get("adhoc") or []],
            sort_keys=True).encode()).hexdigest()[:32]
        if use_cache:
            g = self.mem.get(key)
            if g is not None:
                self.stats["golden_mem_hits"] += 1
                return g
            if self.cache_dir:
                p = os.path.join(self.cache_dir, key[:2], key)
                try:
                    with open(p) as f:
                        g = json.load(f)
                    self.mem[key] = g
                    self.stats["golden_disk_hits"] += 1
                    return g
                except (OSError, ValueError):
                    pass
        wt = self.want_touched and self.stats.get("touched_evals", 0) < 400
        if wt:
            self.stats["touched_evals"] = self.stats.get("touched_evals", 0) + 1
        g = self.golden_raw(dict(req, want_touched=True) if wt else req)
        g["key"] = key
        g["by"] = self.variant.get("name", "?")
        g["req"] = req
        # H9: the same call evaluated alone by another process class (e.g. -OO)
        for pd in self.peer_cache_dirs:
            try:
                with open(os.path.join(pd, key[:2], key)) as f:
                    other = json.load(f)
            except (OSError, ValueError):
                continue
            self.stats["peer_compared"] = self.stats.get("peer_compared", 0) + 1
            if other.get("outcome") != g.get("outcome") and not (
                    _resource(other.get("outcome")) or _resource(g.get("outcome"))):
                self.h9_mismatches.append({"req": req, "here": g["outcome"],
                                           "there": other["outcome"],
                                           "there_by": other.get("by")})
        self.dual_check(req, g, key)
        if use_cache:
            self.mem[key] = g
            if self.cache_dir:
                d = os.path.join(self.cache_dir, key[:2])
                os.makedirs(d, exist_ok=True)
                tmp = os.path.join(d, ".%s.%d" % (key, os.getpid()))
                with open(tmp, "w") as f:
                    json.dump(g, f)
                os.replace(tmp, os.path.join(d, key))
        return g

    def dual_check(self, req, g, key):
        """H9: evaluate a freshly computed golden value a second time, alone, in the
        peer process variant (other hash seed, import order, -O level).  Done for
        every request that carries a collection with repeated elements (what set /
        dict based de-duplication and ordering feeds on), for every rejection (a call
        that raises or returns False: validation is where assert statements and
        __debug__ switches hide) and for a key-determined eighth of the others."""
        if self.peer_variant is None or "outcome" not in g or _resource(g["outcome"]):
            return
        if req["fn"][0] in ("lazy", "sim"):
            return
        rejected = g["outcome"][0] == "raised" or g["outcome"] == ["ret", ["bool", 0]]
        if not (rejected or _has_repeats(req.get("args")) or int(key[:4], 16) % 8 == 0):
            return
        if rejected and g.get("count", 0) > 400000 and int(key[:4], 16) % 4:
            return        # expensive rejections (a full pairing that says no): a quarter
        if self.peer is None:
            from .variant import Peer
            self.peer = Peer(self.peer_variant)
        t = time.monotonic()
        other = self.peer.eval({k: req[k] for k in ("fn", "args", "kw", "adhoc") if k in req})
        self.stats["peer_time"] = self.stats.get("peer_time", 0.0) + time.monotonic() - t
        if other is None:
            if self.peer.start_error and not self.stats.get("peer_start_failure"):
                self.stats["peer_start_failure"] = 1
                self.peer_start_error = self.peer.start_error
            return
        self.stats["peer_dual_evals"] = self.stats.get("peer_dual_evals", 0) + 1
        if other != g["outcome"] and not _resource(other):
            self.h9_mismatches.append({"req": req, "here": g["outcome"], "there": other,
                                       "there_by": "peer variant %s" % json.dumps(
                                           self.peer_variant)})

    # ------------------------------------------------------------------
    def arg_canon(self, spec, regc):
        """canonical form of an argument as the model sees it"""
        if "lit" in spec:
            return spec["lit"]
        if "reg" in spec:
            r = spec["reg"]
            if r not in regc:
                raise O.Missing(r)
            c = regc[r]
            if "idx" in spec:
                if not (isinstance(c, list) and len(c) == 2 and c[0] in ("tuple", "list")
                        and len(c[1]) > spec["idx"]):
                    raise O.Missing("%s[%d]" % (r, spec["idx"]))
                c = c[1][spec["idx"]]
            return c
        if "const" in spec:
            return C.canon(O.resolve_const(spec))
        if "copy" in spec:
            return self.arg_canon(spec["copy"], regc)     # a copy is an equal argument
        if "list" in spec:
            return ["list", [self.arg_canon(s, regc) for s in spec["list"]]]
        if "tuple" in spec:
            return ["tuple", [self.arg_canon(s, regc) for s in spec["tuple"]]]
        raise KeyError(spec)

    def used_adhoc(self, spec, req_json):
        """ad-hoc class specs a request refers to (by name), plus the ad-hoc
        bases they derive from, in definition order"""
        allc = list(spec.get("adhoc_classes", ()))
        need = {a["name"] for a in allc if ("adhoc.%s" % a["name"]) in req_json}
        grew = True
        while grew:
            grew = False
            for a in allc:
                if a["name"] not in need:
                    continue
                for b in [a.get("base") or ""] + list(a.get("bases") or ()):
                    if b.startswith("adhoc.") and b[6:] not in need:
                        need.add(b[6:])
                        grew = True
        return [{k: v for k, v in a.items() if k != "dynamic"} for a in allc
                if a["name"] in need]

    def model_ops(self, spec, ops, regc):
        """reference-model execution of one op list: every call alone in a
        pristine fork, values passed forward canonically."""
        for op in ops:
            if "pseudo" in op:
                ps = op["pseudo"]
                if ps in ("evict", "dropclass"):
                    for r in op.get("regs", ()):
                        regc.pop(r, None)
                elif ps == "mk":
                    regc[op["out"]] = op["value"]
                elif ps == "mutate_reg":
                    # the caller's own change to its own object, mirrored on the model's value
                    c = regc.get(op["reg"])
                    if isinstance(c, list) and len(c) == 2:
                        if c[0] == "bytearray" and op["how"] == "set":
                            regc[op["reg"]] = ["bytearray", op["payload"]]
                        elif c[0] == "list" and op["how"] == "append":
                            regc[op["reg"]] = ["list", list(c[1]) + [op["payload"]]]
                        elif c[0] == "list" and op["how"] == "pop" and c[1]:
                            regc[op["reg"]] = ["list", list(c[1])[:-1]]
                        elif c[0] == "list" and op["how"] == "reverse":
                            regc[op["reg"]] = ["list", list(reversed(c[1]))]
                continue
            op.pop("skip", None)
            op.pop("gold", None)
            try:
                args = [self.arg_canon(a, regc) for a in op.get("args", ())]
                kw = {k: self.arg_canon(a, regc) for k, a in (op.get("kw") or {}).items()}
            except O.Missing as e:
                op["skip"] = "missing-input:%s" % e
                continue
            except (AttributeError, KeyError, IndexError, ImportError, TypeError) as e:
                # the constant does not exist (or not in that shape) in this tree
                op["skip"] = "no-such-const:%s" % type(e).__name__
                continue
            req = {"fn": op["fn"], "args": args, "kw": kw}
            rj = json.dumps(req)
            req["adhoc"] = self.used_adhoc(spec, rj)
            if op["fn"][0] == "lazy":
                req["global_monitor"] = False
            g = self.golden(req)
            if "unbuildable" in g:
                op["skip"] = "unbuildable:%s" % g["unbuildable"]
                continue
            if g["outcome"][0] == "budget":
                # the call alone exhausts the step / wall budget: not simulated
                op["skip"] = "budget"
                continue
            flat = args + [kw[k] for k in sorted(kw)]
            op["gold"] = {"od": C.digest(g["outcome"]), "kind": g["outcome"][0],
                          "count": g["count"], "key": g["key"],
                          "args": [C.digest(a) for a in flat]}
            if g.get("touched"):
                op["gold"]["touched"] = g["touched"]
            if g["outcome"][0] == "raised":
                op["gold"]["exc"] = g["outcome"][1]
            if not g.get("i2", True):
                op["gold"]["i2_alone"] = False
            out = op.get("out")
            if out:
                if g["outcome"][0] == "ret":
                    regc[out] = g["outcome"][1]
                else:
                    regc.pop(out, None)

    def model_pass(self, spec, counts=None):
        """annotate spec with golden expectations; resolve fractional schedule
        coordinates into event ordinals.  Returns the annotated copy."""
        spec = copy.deepcopy(spec)
        regc = {}
        self.model_ops(spec, spec.get("prelude") or [], regc)
        for ops in spec.get("tasks") or []:
            self.model_ops(spec, ops, dict(regc))

        def op_at(t, k):
            try:
                if t == -1:
                    return spec["prelude"][k]
                return spec["tasks"][t][k]
            except (IndexError, KeyError, TypeError):
                return None

        sched = spec.setdefault("schedule", {})
        sw = []
        for s in sched.get("switches", ()):
            op = op_at(s["task"], s["op"])
            if op is None or "gold" not in op:
                continue
            if "event" not in s:
                n = op["gold"]["count"]
                if counts is not None:
                    n = counts.get("%d:%d" % (s["task"], s["op"]), n)
                if n <= 0:
                    continue
                s = dict(s)
                s["event"] = 1 + int(s.pop("frac") * n) if n > 1 else 1
            sw.append(s)
        sched["switches"] = sw
        fl = []
        for f in spec.get("faults", ()):
            op = op_at(f["task"], f["op"])
            if op is None or "gold" not in op:
                continue
            f = dict(f)
            if f["kind"] == "async_exc" and "event" not in f:
                n = op["gold"]["count"]
                if counts is not None:
                    n = counts.get("%d:%d" % (f["task"], f["op"]), n)
                if n <= 0:
                    continue
                f["event"] = 1 + int(f.pop("frac") * n) if n > 1 else 1
            fl.append(f)
            # a faulted producer hands the model's value to its consumers
            if op.get("out") and op["gold"]["kind"] == "ret":
                g = self.mem.get(op["gold"]["key"])
                if g is not None:
                    op["fallback"] = g["outcome"][1]
        spec["faults"] = fl
        return spec

    # ------------------------------------------------------------------
    SIM_TIMEOUT = 900        # wall seconds for one simulated run (the runner lowers it for quick)

    def run_sim(self, spec, timeout=None):
        timeout = timeout or self.SIM_TIMEOUT
        from . import child
        base = self.base
        t = time.monotonic()
        res = fork_call(lambda s: child.run_sim(s, base), spec, timeout)
        self.stats["sim_runs"] += 1
        self.stats["sim_time"] += time.monotonic() - t
        return res

    # ------------------------------------------------------------------
    def proj_equal(self, spec, a, b):
        req = {"fn": ["sim", "proj_eq"], "args": [a, b], "kw": {}}
        req["adhoc"] = self.used_adhoc(spec, json.dumps(req))
        try:
            g = self.golden_raw(req)
        except HarnessError:
            return False
        return g.get("outcome") == ["ret", ["bool", 1]]

    def judge(self, spec, res):
        """compare the recorded history with the model.  -> (violations, counters)"""
        viol = list(res.get("violations") or [])
        cnt = {"compared": 0, "faulted": 0, "resource_indeterminate": 0,
               "budget_exceeded": 0, "skipped": 0, "trace_divergence": 0,
               "representation_drift": 0, "nontrivial": []}

        def op_at(t, k):
            return spec["prelude"][k] if t == -1 else spec["tasks"][t][k]

        for r in res.get("records", ()):
            if r[0] == "skipped":
                cnt["skipped"] += 1
            elif r[0] == "invoke":
                _, t, k, fnk, pre = r
                gold = op_at(t, k).get("gold")
                if gold is not None and pre != gold["args"]:
                    viol.append({"invariant": "I8", "task": t, "op": k, "function": fnk,
                                 "detail": {"what": "argument value at call time differs "
                                            "from the value the model passed forward",
                                            "positions": [i for i in range(len(pre))
                                                          if i >= len(gold["args"]) or
                                                          pre[i] != gold["args"][i]]}})
            elif r[0] == "return":
                _, t, k, fnk, od, n, faulted, oc = r
                op = op_at(t, k)
                gold = op.get("gold")
                if gold is None:
                    continue
                if gold.get("i2_alone") is False:
                    viol.append({"invariant": "I2", "task": t, "op": k, "function": fnk,
                                 "detail": {"what": "arguments changed by the call evaluated alone"}})
                if faulted:
                    cnt["faulted"] += 1
                    continue
                if oc[0] == "budget" or gold["kind"] == "budget":
                    cnt["budget_exceeded"] += 1
                    continue
                if (oc[0] == "raised" and oc[1] in RESOURCE_EXC) or \
                        gold.get("exc") in RESOURCE_EXC:
                    cnt["resource_indeterminate"] += 1
                    continue
                cnt["compared"] += 1
                if n != gold["count"]:
                    cnt["trace_divergence"] += 1
                if od != gold["od"]:
                    g = self.mem.get(gold["key"]) or {}
                    gout = g.get("outcome")
                    det = {"got_digest": od, "golden_digest": gold["od"],
                           "got": _short(oc), "golden": _short(gout)}
                    if (str(op.get("ty", "")).startswith("pt3:") and oc[0] == "ret"
                            and gout and gout[0] == "ret" and oc[1] != ["big"]
                            and self.proj_equal(spec, oc[1], gout[1])):
                        # same group element, other projective representative: the raw
                        # coordinates a caller reads are still not a function of the
                        # arguments alone (on a pure tree the representative is fixed)
                        cnt["representation_drift"] += 1
                        det["note"] = ("same curve point, different projective "
                                       "representative (x, y, z)")
                    viol.append({"invariant": "H3", "task": t, "op": k, "function": fnk,
                                 "detail": det})
        return viol, cnt


def _has_repeats(c, depth=0):
    """does a canonical argument structure contain a list/tuple with a repeated element"""
    if depth > 4 or not isinstance(c, list):
        return False
    if len(c) == 2 and c[0] in ("list", "tuple") and isinstance(c[1], list):
        items = c[1]
        seen = set()
        for x in items:
            if type(x) is int or x is None:
                continue                     # coefficient lists repeat small ints all the time
            k = json.dumps(x, sort_keys=True)
            if k in seen:
                return True
            seen.add(k)
        return any(_has_repeats(x, depth + 1) for x in items)
    return any(_has_repeats(x, depth + 1) for x in c if isinstance(x, list))


def _resource(outcome):
    return bool(outcome) and (outcome[0] == "budget" or
                              (outcome[0] == "raised" and outcome[1] in RESOURCE_EXC))


def _short(c, n=400):
    s = C.cjson(c) if c is not None else "null"
    return s if len(s) <= n else s[:n] + "...(%d chars)" % len(s)
