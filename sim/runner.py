"""Worker: one pristine server executing a list of run indices.

`python -m sim.runner` reads a JSON job from stdin and prints one JSON line per
run (and a final summary line).  The master (sim.check) aggregates.
"""
import collections
import hashlib
import json
import os
import random
import sys
import time

from . import canon as C
from . import gen as G
from . import shrink as SH
from .server import HarnessError, Server, SUBPACKAGES


def derive_rng(seed, index):
    h = hashlib.sha256(("%d:%d" % (seed, index)).encode()).hexdigest()
    return random.Random(int(h, 16))


def h8(s):
    return hashlib.sha1(s.encode()).hexdigest()[:12]


# --------------------------------------------------------------------------
# the plan: which scenario a run index executes (pure function of tier/index)
# --------------------------------------------------------------------------
def _sweep_kinds(tier, seed):
    """operation kinds swept by the directed samekind / firstuse scenarios.  The
    seven ad-hoc field families repeat the same FQ/FQP code paths with other
    class attributes: the quick tier sweeps a seeded quarter of their kinds (all
    of them over four consecutive seeds), the thorough tier all of them."""
    tps = sorted(G.TEMPLATES, key=lambda t: (-t.cost, t.kind))
    if tier != "quick":
        return tps
    out = []
    for t in tps:
        if t.group.startswith("field:") and t.group[6:] in G.ADHOC:
            h = int(hashlib.sha1(t.kind.encode()).hexdigest()[:8], 16)
            if (h + seed) % 4 != 0:
                continue
        out.append(t)
    return out


def build_plan(tier, nruns=None, seed=0):
    """-> list of (scenario, param, faults) ; index i executes plan[i].
    A pure function of (tier, nruns, seed).  The order is what a worker follows,
    so under a wall-clock budget a prefix of it is executed: expensive runs
    come first (load balance), everything else is shuffled so that any prefix is
    a fair sample of all scenario classes."""
    plan = []
    tps = _sweep_kinds(tier, seed)
    if tier == "quick":
        for n_, t in enumerate(tps):
            # (a third of the same-kind storms also get an injected fault: a caller
            #  interrupted while another one waits for it or shares its work)
            plan.append(("samekind", t.kind, (n_ + seed) % 3 == 0))
            if t.gen is not None and (n_ + seed) % 3 != 0:
                # the verifiers (where callers plausibly share or wait for work): both ways
                plan.append(("samekind", t.kind, True))
        for t in tps:
            plan.append(("firstuse", t.kind, True))
        nrand = 1000
        pr = random.Random(777 + seed)
        for i in range(24):
            plan.append(("cold", None, i % 3 != 0))
        for i in range(6):
            plan.append(("cold-order", pr.randrange(720), False))
        directed = (("crosssuite", 28), ("sharedvals", 48), ("classchurn", 48), ("soak", 6),
                    ("usersuites", 20), ("reentrant", 12))
    else:
        for rep in range(3):
            for t in tps:
                plan.append(("samekind", t.kind, rep == 2))
            for t in tps:
                plan.append(("firstuse", t.kind, rep != 1))
        nrand = 30000
        for i in range(160):
            plan.append(("cold", None, bool(i % 2)))
        for i in range(720):
            plan.append(("cold-order", i, False))
        directed = (("crosssuite", 400), ("sharedvals", 600), ("classchurn", 600),
                    ("soak", 320), ("usersuites", 300), ("reentrant", 200))
    for name, cnt in directed:
        for i in range(cnt):
            plan.append((name, None, i % 4 == 3))
    mix = [("random-light", 44), ("random-medium", 24), ("random-heavy", 6),
           ("crosscurve", 8), ("evict", 8), ("samekind-rand", 6), ("sharedvals", 3),
           ("classchurn", 3), ("crosssuite", 2), ("pairkind", 10)]
    names = [m for m, _ in mix]
    ws = [w for _, w in mix]
    r = random.Random(12345)
    for i in range(nrand):
        plan.append((r.choices(names, ws)[0], None, bool(i % 2)))

    def heavy(e):
        if e[0] in ("samekind", "firstuse"):
            return G.BY_KIND[e[1]].cost >= 100
        return e[0] in ("random-heavy", "cold", "cold-order", "soak", "crosssuite", "usersuites",
                        "reentrant")
    if tier == "quick":
        first = [e for e in plan if heavy(e)]
        rest = [e for e in plan if not heavy(e)]
    else:
        # the thorough plan is larger than its budget on purpose: one fair shuffle,
        # the budget decides how far it gets
        first, rest = [], list(plan)
    random.Random(424242 + seed).shuffle(first)
    random.Random(434343 + seed).shuffle(rest)
    plan = first + rest
    if nruns is not None:
        plan = plan[:nruns]
    return plan


def make_spec(server, seed, index, tier, entry):
    rng = derive_rng(seed, index)
    g = G.ColdScenarios(rng, server, tier)
    scen, param, faults = entry
    thorough = tier == "thorough"
    if scen == "samekind":
        spec = g.scn_samekind(G.BY_KIND[param], faults=faults)
    elif scen == "firstuse":
        spec = g.scn_firstuse(G.BY_KIND[param], faults=faults)
    elif scen == "samekind-rand":
        spec = g.scn_samekind(rng.choice([t for t in G.TEMPLATES if t.cost < 150]),
                              faults=faults)
    elif scen == "pairkind":
        if param:
            kf, _, kg = param.partition("|")
            tf = G.BY_KIND[kf]
            tg = G.BY_KIND[kg] if kg else g.pair_partner(tf)
        else:
            pool = [t for t in G.TEMPLATES if t.cost <= 400 and t.group not in ("lazy", "generic")
                    and not (t.group.startswith("field:") and t.group[6:] in G.ADHOC)]
            gsel = rng.choice(sorted({t.group for t in pool}))
            tf = rng.choice([t for t in pool if t.group == gsel])
            tg = g.pair_partner(tf)
        spec = g.scn_pairkind(tf, tg, faults=faults)
    elif scen == "cold":
        spec = g.scn_cold(faults=faults)
    elif scen == "cold-order":
        spec = g.scn_cold_order(param)
    elif scen == "crosscurve":
        spec = g.scn_crosscurve(faults=faults)
    elif scen == "crosssuite":
        spec = g.scn_crosssuite(faults=faults)
    elif scen == "sharedvals":
        spec = g.scn_sharedvals(faults=faults)
    elif scen == "usersuites":
        spec = g.scn_usersuites(faults=faults)
    elif scen == "reentrant":
        spec = g.scn_reentrant(faults=faults)
    elif scen == "soak":
        spec = g.scn_soak(n=380 if not thorough else rng.choice([380, 600, 1100]),
                          max_cost=12.0 if not thorough else rng.choice([12.0, 12.0, 120.0]),
                          kinds=[param] if param else None,
                          # aimed soaks come in pairs: consecutive small values / random ones
                          mode=("seq" if faults else True) if param else None)
    elif scen == "classchurn":
        spec = g.scn_classchurn(faults=faults,
                                rounds=None if not thorough else rng.randint(6, 14))
    elif scen == "evict":
        spec = g.scn_evict(nops=rng.randint(20, 60) if not thorough else rng.randint(40, 250),
                           faults=faults)
    else:
        cls = scen.split("-", 1)[1]
        spec = g.scn_random(cls, faults=faults, max_ops=12 if not thorough else 60,
                            max_tasks=4 if not thorough else 6)
    spec["found_by"] = {"verif_seed": seed, "run_index": index, "tier": tier}
    spec["config"] = "faults" if faults else "faultfree"
    return spec


# --------------------------------------------------------------------------
# one run
# --------------------------------------------------------------------------
def op_at(spec, t, k):
    return spec["prelude"][k] if t == -1 else spec["tasks"][t][k]


def coverage_of(spec, res):
    """measured coverage of one executed run"""
    nontriv = set()
    pairs = set()
    sites = set()
    fsites = set()
    sw_sig = hashlib.sha1()
    suspended = {}       # task -> kind of the op it is suspended in
    ctx_of = {}
    fault_seen = False
    evict_gc = False
    prev_kind = None
    nsw = 0
    for r in res["records"]:
        tag = r[0]
        if tag == "invoke":
            _, t, k, fnk, pre = r
            op = op_at(spec, t, k)
            kind = op.get("kind", fnk)
            flags = []
            others = sorted(v for tt, v in suspended.items() if tt != t)
            if others:
                flags.append("C:" + ",".join(others))
            if fault_seen:
                flags.append("F")
            if evict_gc:
                flags.append("E")
            ctx_of[(t, k)] = [kind, "|".join(pre), flags]
        elif tag == "switch":
            _, a, b, opk, ev, where = r
            nsw += 1
            if opk is not None and ev >= 0:
                op = op_at(spec, a, opk)
                kind = op.get("kind", "?")
                suspended[a] = kind
                site = "%s:%s" % (where[0], where[1]) if isinstance(where, list) else str(where)
                sites.add(site)
                c = ctx_of.get((a, opk))
                if c is not None and not any(f.startswith("S:") for f in c[2]):
                    c[2].append("S:" + site)
                sw_sig.update(("%s@%s>" % (kind, site)).encode())
            else:
                sw_sig.update(b"b>")
            suspended.pop(b, None)
        elif tag == "fault":
            fault_seen = True
            w = r[5]
            if w and w[0]:
                fsites.add("%s:%s" % (w[0], w[1]))
        elif tag == "gc":
            evict_gc = True
        elif tag == "return":
            _, t, k, fnk, od, n, faulted, oc = r
            suspended.pop(t, None)
            c = ctx_of.pop((t, k), None)
            if c is not None:
                kind, argd, flags = c
                if flags and not faulted:
                    nontriv.add(h8("%s|%s|%s" % (kind, argd, ";".join(flags))))
                if prev_kind is not None:
                    pairs.add(h8(prev_kind + ">" + kind))
                prev_kind = kind
    return {"nontrivial": sorted(nontriv), "pairs": sorted(pairs), "sites": sorted(sites),
            "fault_sites": sorted(fsites),
            "interleaving": sw_sig.hexdigest()[:16] if nsw else None}


def execute(server, spec, want_cov=True):
    """model pass + simulated run + judgement"""
    if str(spec.get("scenario", "")).startswith("cold"):
        from . import cold
        return cold.execute_cold(server, spec)
    t0 = time.monotonic()
    m = server.model_pass(spec)
    t1 = time.monotonic()
    res = server.run_sim(m)
    t2 = time.monotonic()
    out = {"model_s": t1 - t0, "sim_s": t2 - t1, "spec": m}
    if "records" not in res:
        out["harness_error"] = "sim child: %s" % json.dumps(res)[:2000]
        return out
    if res.get("harness_error"):
        out["harness_error"] = res["harness_error"]
        return out
    viol, cnt = server.judge(m, res)
    out["violations"] = viol
    out["counters"] = {k: v for k, v in cnt.items() if isinstance(v, int)}
    out["stats"] = res["stats"]
    out["probes"] = res["probes"]
    out["records_digest"] = hashlib.sha256(
        json.dumps(res["records"]).encode()).hexdigest()[:24]
    if want_cov:
        out["coverage"] = coverage_of(m, res)
    out["res"] = res
    return out


def violation_class(v):
    d = v.get("detail") or {}
    return (v["invariant"], v.get("function") or d.get("key") or d.get("reg") or "")


def classify_h3(server, m, v):
    """confirmation step for an H3 mismatch: recompute the golden value in a
    second pristine fork.  If it now agrees with the simulated run, the *cached*
    golden (computed by another process variant) is the odd one out."""
    if v["invariant"] != "H3":
        return "n/a"
    op = op_at(m, v["task"], v["op"])
    g = server.mem.get(op["gold"]["key"])
    if not g or "req" not in g:
        return "history"
    g2 = server.golden_raw(g["req"])
    if C.digest(g2["outcome"]) != C.digest(g["outcome"]):
        v["detail"]["golden_recomputed_digest"] = C.digest(g2["outcome"])
        v["detail"]["golden_first_by"] = g.get("by")
        return "process-lifetime"
    return "history"


def handle_violation(server, out, replay_dir, seed, index, shrink_budget_s=150):
    m = out["spec"]
    viol = out["violations"]
    v0 = viol[0]
    v0["kind"] = classify_h3(server, m, v0)
    cls = violation_class(v0)
    t0 = time.monotonic()
    small, steps = SH.shrink(server, m, cls, budget_s=shrink_budget_s)
    doc = dict(small)
    doc.pop("res", None)
    attempts = 1
    # final confirmation: replay the minimised spec once more, fresh fork
    again = execute(server, small, want_cov=False)
    av = [v for v in again.get("violations", ()) if violation_class(v) == cls]
    if not av:
        # the minimised history does not fail on its own (e.g. the failure needs
        # an identity reuse that the shorter history no longer produces): report
        # the original history, after checking that it fails again
        orig = dict(m)
        orig.pop("res", None)
        for attempts in range(1, 7):
            again = execute(server, orig, want_cov=False)
            av = [v for v in again.get("violations", ()) if violation_class(v) == cls]
            if av:
                break
        doc = orig
        steps = -steps
        if attempts > 1 or not av:
            # depends on something the history does not fix (typically which
            # address a new object gets): the replay command re-executes it
            # several times
            doc["replay_attempts"] = 12
    doc["violation"] = av[0] if av else v0
    doc["violation"]["kind"] = v0["kind"]
    doc["shrink"] = {"steps": steps, "seconds": round(time.monotonic() - t0, 1),
                     "reproduced_after_shrink": bool(av)}
    if not av:
        doc["shrink"]["last_attempt"] = {
            "harness_error": again.get("harness_error"),
            "violations": [[v.get("invariant"), v.get("function"), v.get("task"), v.get("op")]
                           for v in (again.get("violations") or [])[:8]]}
    if not str(doc.get("scenario", "")).startswith("cold"):
        doc["server"] = dict(server.variant)
    os.makedirs(replay_dir, exist_ok=True)
    name = "C20-%d-%d.json" % (seed, index)
    path = os.path.join(replay_dir, name)
    with open(path, "w") as f:
        json.dump(doc, f, indent=1)
    return path, doc["violation"], bool(av)


def compact_sample(m, out):
    """a readable, bounded rendering of an executed run for the evidence file"""
    def ops(lst):
        o = []
        for op in lst[:8]:
            if "pseudo" in op:
                o.append(op["pseudo"])
            else:
                s = op.get("kind", "?")
                if op.get("skip"):
                    s += " [skipped]"
                elif "gold" in op:
                    s += " -> %s (%d steps)" % (op["gold"].get("exc", op["gold"]["kind"]),
                                                  op["gold"]["count"])
                o.append(s)
        if len(lst) > 8:
            o.append("... %d more" % (len(lst) - 8))
        return o
    return {
        "found_by": m.get("found_by"), "scenario": m.get("scenario"), "focus": m.get("focus"),
        "config": m.get("config"), "knobs": m.get("knobs"),
        "adhoc": [a["name"] for a in m.get("adhoc_classes", ())],
        "prelude": ops(m.get("prelude") or []),
        "tasks": [ops(t) for t in m.get("tasks") or []],
        "switches": (m["schedule"].get("switches") or [])[:6],
        "n_switches_planned": len(m["schedule"].get("switches") or []),
        "at_op_boundaries": (m["schedule"].get("at_op_boundaries") or [])[:4],
        "faults": m.get("faults"),
        "executed": {"switches": out["stats"]["switches"],
                     "faults_fired": out["stats"]["faults_fired"],
                     "stack_faults_fired": out["stats"]["stack_faults_fired"],
                     "line_events": out["stats"]["events"],
                     "counters": out["counters"]},
    }


def _safe(f):
    try:
        return f()
    except Exception as e:  # inventory is informational
        return {"error": repr(e)}


def main():
    job = json.load(sys.stdin)
    seed, tier = int(job["seed"]), job["tier"]
    variant = job.get("variant") or {}
    order = variant.get("import_order") or SUBPACKAGES
    t_start = time.monotonic()
    try:
        server = Server(import_order=order, cache_dir=job.get("cache_dir"), variant=variant,
                        peer_cache_dirs=job.get("peer_cache_dirs"))
    except Exception as e:  # import failure of the tree (in this variant's order/flags)
        print(json.dumps({"type": "start_failure", "error": "%r" % (e,),
                          "exc": C._typename(type(e)), "variant": variant}))
        sys.stdout.flush()
        return 3
    if tier == "quick":
        server.SIM_TIMEOUT = 300      # a per-change check must end well inside its time limit
    # the peer variant: another hash seed, the reverse import order, the other -O level
    if not os.environ.get("SIM_NO_PEER"):
        server.peer_variant = {
            "hashseed": (int(variant.get("hashseed") or 0) * 31 + 977) % 4294967295 or 5,
            "import_order": list(reversed(order)),
            "flags": [] if (variant.get("flags") or []) else
            (["-O"] if sum(map(ord, variant.get("name", "w"))) % 2 else ["-OO"])}
    plan = build_plan(tier, job.get("nruns"), seed)
    extra = job.get("extra_plan") or {}

    def entry_of(i):
        e = extra.get(str(i))
        return tuple(e) if e is not None else plan[i]
    print(json.dumps({"type": "hello", "variant": variant,
                      "hashseed": os.environ.get("PYTHONHASHSEED"),
                      "optimize": sys.flags.optimize,
                      "snapshot_data": server.snapshot_digest("public"),
                      "snapshot_keys": server.base["public"][0],
                      "snapshot_full": server.snapshot_digest("full"),
                      "modules": C.pyecc_modules(),
                      "uncatalogued": _safe(lambda: __import__(
                          "sim.inventory", fromlist=["x"]).uncatalogued()),
                      "write_sites": _safe(lambda: __import__(
                          "sim.inventory", fromlist=["x"]).write_sites()),
                      "start_s": round(time.monotonic() - t_start, 2)}))
    sys.stdout.flush()
    deadline = job.get("deadline_s")
    want_records = bool(job.get("want_records"))
    nsamples = 0
    claim_dir = job.get("claim_dir")
    mine = set()

    def claimed(i):
        """dynamic load balance: all workers of a process class walk the same ordered
        list and claim an index by creating its file (what a run does is a function
        of its index, not of the worker that happens to execute it)"""
        if not claim_dir:
            return True
        try:
            os.close(os.open(os.path.join(claim_dir, str(i)), os.O_CREAT | os.O_EXCL, 0o600))
            return True
        except FileExistsError:
            return False
    # determinism sample first (so that a wall budget that cuts the plan cannot skip it):
    # two runs that some worker of this class also executes as part of the plan
    nre = 0
    for index in job.get("recheck") or []:
        if deadline is not None and time.monotonic() - t_start > deadline:
            break
        if nre >= 2:
            continue
        nre += 1
        try:
            spec = make_spec(server, seed, index, tier, entry_of(index))
            out = execute(server, spec, want_cov=False)
            print(json.dumps({"type": "rerun", "index": index,
                              "records_digest": out.get("records_digest")}))
        except Exception:
            print(json.dumps({"type": "rerun", "index": index, "records_digest": None}))
        sys.stdout.flush()
    ppid0 = os.getppid()
    for index in job["indices"]:
        if os.getppid() != ppid0:
            return 4                      # the master is gone: nobody is listening
        if deadline is not None and time.monotonic() - t_start > deadline:
            print(json.dumps({"type": "deadline", "next_index": index}))
            break
        if not claimed(index):
            continue
        mine.add(index)
        line = {"type": "run", "index": index}
        try:
            spec = make_spec(server, seed, index, tier, entry_of(index))
            line["scenario"] = spec["scenario"]
            line["focus"] = spec.get("focus")
            line["config"] = spec["config"]
            out = execute(server, spec)
            line["model_s"] = round(out["model_s"], 3)
            line["sim_s"] = round(out["sim_s"], 3)
            if "harness_error" in out:
                line["harness_error"] = out["harness_error"]
            else:
                line["counters"] = out["counters"]
                line["stats"] = out["stats"]
                line["probes"] = out["probes"]
                line["coverage"] = out["coverage"]
                line["records_digest"] = out["records_digest"]
                line["kinds"] = sorted({op.get("kind") for lst in
                                        [out["spec"]["prelude"]] + out["spec"]["tasks"]
                                        for op in lst if "gold" in op})
                line["ntasks"] = len(out["spec"]["tasks"])
                # hidden state was seen to change: from now on every freshly evaluated
                # model value also says which state keys that call alone touches
                if any(k.split(":", 1)[0] in ("slot-filled", "internal-changed", "new-name",
                                              "removed-internal", "code-rebound")
                       for k in out["probes"]) and \
                        not str(spec.get("scenario", "")).startswith("cold"):
                    server.want_touched = True
                tch = {}
                for lst in [out["spec"]["prelude"]] + out["spec"]["tasks"]:
                    for op in lst:
                        t_ = (op.get("gold") or {}).get("touched")
                        if t_ and op.get("kind") in G.BY_KIND:
                            tch.setdefault(op["kind"], set()).update(t_)
                if tch:
                    line["touched"] = {k: sorted(v) for k, v in tch.items()}
                if want_records:
                    line["records"] = out["res"]["records"]
                if nsamples < 2 and (out["stats"]["switches"] or out["stats"]["faults_fired"]):
                    line["sample"] = compact_sample(out["spec"], out)
                    nsamples += 1
                if out["violations"]:
                    path, v, ok = handle_violation(server, out, job["replay_dir"], seed, index)
                    line["violation"] = v
                    line["replay"] = path
                    line["reproduced"] = ok
                    line["all_violations"] = [
                        {"invariant": x["invariant"], "function": x.get("function")}
                        for x in out["violations"][:10]]
        except HarnessError as e:
            line["harness_error"] = str(e)[:2000]
        except Exception:
            import traceback
            line["harness_error"] = traceback.format_exc()[-2000:]
        if server.h9_mismatches:
            mm = server.h9_mismatches.pop(0)
            del server.h9_mismatches[:]
            doc = {"format": 1, "property": "C20", "scenario": "golden-variants",
                   "server": dict(variant), "peer_variant": server.peer_variant,
                   "request": mm["req"],
                   "violation": {"invariant": "H9", "kind": "process-lifetime",
                                 "function": ".".join(str(x) for x in mm["req"]["fn"]),
                                 "task": None, "op": None,
                                 "detail": {"here": C.cjson(mm["here"])[:300],
                                            "there": C.cjson(mm["there"])[:300],
                                            "there_by": mm["there_by"],
                                            "what": "the same call evaluated alone gives "
                                                    "different results in two process variants"}}}
            os.makedirs(job["replay_dir"], exist_ok=True)
            path = os.path.join(job["replay_dir"], "C20-%d-%d-H9.json" % (seed, index))
            with open(path, "w") as f:
                json.dump(doc, f, indent=1)
            line["violation"] = doc["violation"]
            line["replay"] = path
            line["reproduced"] = True
        print(json.dumps(line))
        sys.stdout.flush()
    if server.peer is not None:
        server.peer.close()
    print(json.dumps({"type": "bye", "server_stats": server.stats,
                      "wall_s": round(time.monotonic() - t_start, 2)}))
    sys.stdout.flush()
    return 0


if __name__ == "__main__":
    sys.exit(main())
