"""A second pristine server in another process variant (other hash seed, other
import order, other -O level), used as an additional reference model: the same
call evaluated alone there must give the same outcome (H9, process-lifetime
independence).  Protocol: one JSON request per line on stdin, one JSON answer per
line on stdout.  Each request is evaluated in its own fork, as in the main server.

    python [flags] -m sim.variant '<json import order>'
"""
import json
import subprocess
import sys
import os

HERE = os.path.dirname(os.path.abspath(__file__))
VERIF = os.path.dirname(HERE)


def main():
    from .server import Server, HarnessError
    order = json.loads(sys.argv[1]) if len(sys.argv) > 1 else None
    try:
        S = Server(import_order=order)
    except Exception as e:
        print(json.dumps({"start_failure": repr(e)}))
        sys.stdout.flush()
        return 3
    print(json.dumps({"ready": True}))
    sys.stdout.flush()
    for line in sys.stdin:
        line = line.strip()
        if not line:
            continue
        req = json.loads(line)
        try:
            g = S.golden_raw(req)
            out = {"outcome": g.get("outcome"), "unbuildable": g.get("unbuildable")}
        except HarnessError as e:
            out = {"error": str(e)[:300]}
        print(json.dumps(out))
        sys.stdout.flush()
    return 0


class Peer:
    """client side, owned by a worker's Server"""

    def __init__(self, variant, env=None):
        self.variant = variant
        e = dict(env or os.environ)
        e["PYTHONHASHSEED"] = str(variant["hashseed"])
        e["PYTHONDONTWRITEBYTECODE"] = "1"
        pp = [VERIF]
        if os.environ.get("SIM_REPO_ROOT"):
            pp.insert(0, os.environ["SIM_REPO_ROOT"])
        e["PYTHONPATH"] = os.pathsep.join(pp)
        e.pop("PYTHONOPTIMIZE", None)
        self.proc = subprocess.Popen(
            [sys.executable] + list(variant.get("flags") or []) +
            ["-m", "sim.variant", json.dumps(variant.get("import_order"))],
            cwd=VERIF, env=e, stdin=subprocess.PIPE, stdout=subprocess.PIPE,
            stderr=subprocess.DEVNULL, text=True)
        self.ok = None
        self.start_error = None

    def _ready(self):
        if self.ok is None:
            line = self.proc.stdout.readline()
            try:
                msg = json.loads(line)
            except ValueError:
                msg = {}
            self.ok = bool(msg.get("ready"))
            self.start_error = msg.get("start_failure")
        return self.ok

    def eval(self, req):
        """-> outcome, or None when the peer is unusable / the value is unbuildable there"""
        if not self._ready():
            return None
        try:
            self.proc.stdin.write(json.dumps(req) + "\n")
            self.proc.stdin.flush()
            line = self.proc.stdout.readline()
            msg = json.loads(line)
        except (OSError, ValueError):
            self.ok = False
            return None
        if msg.get("unbuildable") or "error" in msg:
            return None
        return msg.get("outcome")

    def close(self):
        try:
            self.proc.stdin.close()
        except OSError:
            pass
        try:
            self.proc.wait(timeout=10)
        except subprocess.TimeoutExpired:
            self.proc.kill()


if __name__ == "__main__":
    sys.exit(main())
