"""developer helper: run single plan indices in-process and print what happened"""
import json
import sys

from . import runner
from .server import Server


def main(argv):
    tier = "quick"
    seed = 0
    S = Server()
    S.peer_variant = {"hashseed": 977, "import_order": list(reversed(S.import_order)),
                      "flags": ["-O"]}
    plan = runner.build_plan(tier, None, seed)
    if argv[0] == "find":
        for i, e in enumerate(plan):
            if e[1] and argv[1] in str(e[1]):
                print(i, e)
        return 0
    if argv[0] == "kind":
        # kind <samekind|firstuse> <kind> [index-for-seed]
        jobs = [(10 ** 6 + int(argv[3]) if len(argv) > 3 else 10 ** 6,
                 (argv[1], argv[2], argv[1] == "firstuse" or len(argv) > 4))]
    elif argv[0] == "soak":
        jobs = [(3 * 10 ** 6 + k, ("soak", argv[1], False)) for k in range(int(argv[2]))]
    elif argv[0] == "scn":
        # scn <scenario> <n>
        jobs = [(2 * 10 ** 6 + k, (argv[1], None, k % 2 == 1)) for k in range(int(argv[2]))]
    else:
        jobs = [(int(a), plan[int(a)]) for a in argv]
    for i, entry in jobs:
        spec = runner.make_spec(S, seed, i, tier, entry)
        out = runner.execute(S, spec)
        print(i, entry, "harness_error" in out and out["harness_error"])
        if S.h9_mismatches:
            print("  H9", json.dumps(S.h9_mismatches[0])[:400])
            del S.h9_mismatches[:]
        if "violations" in out:
            print("  counters", out["counters"], "switches", out["stats"]["switches"],
                  "faults", out["stats"]["faults_fired"], out["stats"]["stack_faults_fired"], "lock_blocks", out["stats"]["lock_blocks"], "probes", out["probes"])
            for v in out["violations"][:5]:
                print("  VIOL", json.dumps(v)[:500])
            for lst in [out["spec"]["prelude"]] + out["spec"]["tasks"]:
                print("  --", [(op.get("kind") or op.get("pseudo")) + ("" if "gold" in op or "pseudo" in op else "[skip:%s]" % op.get("skip")) for op in lst])
            print("  sched", json.dumps(out["spec"]["schedule"])[:400])
            print("  faults", json.dumps(out["spec"]["faults"])[:300])
    return 0


if __name__ == "__main__":
    sys.exit(main(sys.argv[1:]))
