#!/bin/bash
# verify_seeded.sh <id>: demo must FAIL on /repo/py_ecc + patch and PASS on /repo/py_ecc (scratch copies)
ID=$1
D=/verif/seeded/$ID
T=$(mktemp -d /tmp/vs-XXXXXX)
cp -r /repo/py_ecc $T/py_ecc; cp $D/demo.py $T/demo.py
(cd $T && timeout 600 /venv/bin/python demo.py > $T/clean.log 2>&1); c=$?
patch -p1 -s -d $T -i $D/patch.diff || echo "PATCH FAILED"
(cd $T && timeout 600 /venv/bin/python demo.py > $T/with.log 2>&1); w=$?
echo "$ID: clean exit=$c with-change exit=$w  $( [ $c = 0 ] && [ $w = 1 ] && echo CONFIRMED || echo MISMATCH)"
rm -rf $T
