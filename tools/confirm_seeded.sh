#!/bin/bash
# confirm a sub-agent's seeded change in its scratch worktree: demo fails with the change,
# passes without it, and the pinned test suite still has its 181 passes.
# usage: confirm_seeded.sh <worktree> [notests]
WT=$1
cd "$WT" || exit 2
git diff -- py_ecc > /tmp/$(basename $WT).patch
echo "== files touched: $(git diff --stat | tail -1); non-py_ecc source changes: $(git diff --name-only | grep -v '^py_ecc/' | tr '\n' ' ')"
echo "== demo WITH change"; timeout 300 /venv/bin/python demo.py > /tmp/$(basename $WT).with.log 2>&1; echo "exit=$?"; tail -3 /tmp/$(basename $WT).with.log
# (not `git stash`: the stash stack is shared by all worktrees of a repository, and two
#  confirmations running at once pop each other's changes)
git diff -- py_ecc > /tmp/$(basename $WT).undo.patch
git apply -R /tmp/$(basename $WT).undo.patch
echo "== demo WITHOUT change"; timeout 300 /venv/bin/python demo.py > /tmp/$(basename $WT).without.log 2>&1; echo "exit=$?"; tail -2 /tmp/$(basename $WT).without.log
git apply /tmp/$(basename $WT).undo.patch
if [ "$2" != "notests" ]; then
echo "== test suite WITH change"
timeout 3000 /venv/bin/python -m pytest -q -p no:cacheprovider --timeout=900 --continue-on-collection-errors tests 2>&1 | tail -3
fi
