"""turn the output of `python -m sim selftest mutants` (one or more logs) into the
markdown table of DESIGN.md section 6.4
usage: results_table.py <log> [<log> ...]"""
import json
import os
import re
import sys

VERIF = os.path.dirname(os.path.dirname(os.path.abspath(__file__)))


def describe(name):
    if name.startswith("seeded_"):
        p = os.path.join(VERIF, "seeded", name[7:], "meta.json")
        try:
            m = json.load(open(p))
            return m["flavour"] + ": " + m["change"]
        except OSError:
            return ""
    for d in ("mutants", "benign"):
        p = os.path.join(VERIF, d, name + ".diff")
        if os.path.exists(p):
            return DESCR.get(name, "")
    return ""


DESCR = {
    "m1_inherited_class_cache": "optimized FQ2 caches mc_tuples on the class, found with hasattr (inherited by subclasses)",
    "m2_lazy_exptable": "exptable built lazily by appending to a module-level list",
    "m3_keygen_salt_on_class": "KeyGen keeps the evolving salt on the class",
    "m4_aggverify_inplace_messages": "G2MessageAugmentation.AggregateVerify augments `messages` in place",
    "m5_recursionlimit_no_finally": "optimized multiply raises the recursion limit and restores it without finally",
    "m6_aggregate_sorts_input": "Aggregate sorts its input list in place",
    "m7_fqp_mul_scratch": "optimized FQP.__mul__ reuses a module-level scratch list",
    "m8_hkdf_shared_buffer": "hkdf_expand returns a module-level bytearray it reuses",
    "m9_generic_default_modulus": "curve packages set a default field_modulus on the generic base classes at import",
    "m10_locked_lazy_append_interruptible": "lock-protected lazy table filled with append, ready flag last (interruptible)",
    "m11_lru_cache_untyped_prime_field_inv": "functools.lru_cache (typed=False) on prime_field_inv: a float equal to a cached int gets the int's result (was benign b1 until the check objected)",
    "m12_h2g2_memo_converts_key": "hash_to_G2 memo keyed by (bytes(message), bytes(DST), hash): a memoryview / int argument that raises TypeError alone returns a point after an equal bytes call (was benign b4 until the check objected)",
    "b1_lru_cache_prime_field_inv": "benign: functools.lru_cache(typed=True) on prime_field_inv",
    "b2_atomic_lazy_exptable": "benign: exptable built on first use, published with one assignment",
    "b3_locked_lazy_exptable": "benign: lock-protected lazy table with idempotent publication",
    "b4_h2g2_memo_ok": "benign: hash_to_G2 memo keyed by all arguments, plain bytes only",
    "b5_memo_in_default_argument": "benign: hkdf_extract memo in a default argument, fully keyed",
    "b6_instance_cached_inverse": "benign: per-instance cached inverse (cached_property) on optimized FQP",
    "b7_preseeded_internal_memo": "benign: pre-seeded module-level memo of small inverses that grows",
    "b8_thread_local_scratch_row": "benign: thread-local scratch row in optimized FQP.__mul__, cleared before use",
}


def main(paths):
    rows = {}
    for p in paths:
        cur = None
        for line in open(p, errors="replace"):
            if line.rstrip() == "{":
                cur = None                     # the JSON summary at the end of the log
            m = re.match(r"^(\S+)\s+expect=(\d) exit=(\d+)\s+([\d.]+)s (\w+)", line)
            if m:
                cur = m.group(1)
                rows[cur] = {"expect": int(m.group(2)), "exit": int(m.group(3)),
                             "s": float(m.group(4)), "ok": m.group(5) == "OK", "first": ""}
                continue
            m = re.search(r"invariant=(\S+) kind=\S+ function=(\S+) run_index=(\d+)", line)
            if m and cur and not rows[cur]["first"]:
                rows[cur]["first"] = "%s %s (run %s)" % (m.group(1), m.group(2), m.group(3))
            m = re.search(r"invariant=H9 kind=process-lifetime", line)
            if m and cur and not rows[cur]["first"]:
                rows[cur]["first"] = "H9 import fails in another process variant"
    print("| change | what it does | expected | quick result | first report | wall s |")
    print("|---|---|---|---|---|---|")

    def key(n):
        return (0 if n.startswith("m") else 1 if n.startswith("seeded") else 2,
                re.sub(r"\d+", lambda x: x.group(0).zfill(3), n))
    for n in sorted(rows, key=key):
        r = rows[n]
        print("| %s | %s | %s | %s | %s | %.0f |" % (
            n, describe(n)[:230], "caught" if r["expect"] else "green",
            ("caught" if r["exit"] == 1 else "green" if r["exit"] == 0 else "exit %d" % r["exit"])
            + ("" if r["ok"] else " **MISMATCH**"),
            r["first"], r["s"]))
    bad = [n for n, r in rows.items() if not r["ok"]]
    print()
    print("%d of %d as expected%s" % (len(rows) - len(bad), len(rows),
                                      "" if not bad else "; not as expected: " + ", ".join(bad)))


if __name__ == "__main__":
    main(sys.argv[1:])
