"""run the C20 check against py_ecc + one patch in a scratch tree (never /repo)
usage: try_patch.py <patch.diff> [tier] [nruns]  -> prints exit code and violation lines"""
import sys, shutil, glob, os
sys.path.insert(0, "/verif")
from sim import selftest
patch = sys.argv[1]
tier = sys.argv[2] if len(sys.argv) > 2 else "quick"
nruns = int(sys.argv[3]) if len(sys.argv) > 3 else None
import os
if len(sys.argv) > 4:
    os.environ["SIM_ONLY"] = sys.argv[4]
tree = selftest.scratch_tree(patch)
try:
    code, out, err, dt = selftest.run_against(tree, tier=tier, nruns=nruns, stop=True)
finally:
    shutil.rmtree(tree, ignore_errors=True)
print("exit=%d %.1fs" % (code, dt))
print(out[-3000:])
if code not in (0, 1):
    print(err[-2000:])
